//! C10 — specific character sets: codec-level faithfulness for all 16 supported sets
//! (exhaustive over Unicode scalars, anchors, foreign characters, aliases, independent byte
//! tables from Python) and data-set level behaviour after a Specific Character Set element.

use crate::refenc;
use crate::report::*;
use crate::rng::Rng;
use dicom_core::header::Header;
use dicom_core::value::{PrimitiveValue, Value};
use dicom_core::{DataElement, Tag, VR};
use dicom_encoding::text::{SpecificCharacterSet, TextCodec};
use dicom_object::InMemDicomObject;
use serde_json::{json, Value as J};
use std::collections::HashMap;
use std::time::Duration;

const TERMS: [&str; 16] = [
    "ISO_IR 6", "ISO_IR 13", "ISO_IR 87", "ISO_IR 100", "ISO_IR 101", "ISO_IR 109", "ISO_IR 110",
    "ISO_IR 126", "ISO_IR 127", "ISO_IR 138", "ISO_IR 144", "ISO_IR 149", "ISO_IR 166", "ISO_IR 192",
    "GB18030", "GBK",
];

struct Expected {
    pairs: HashMap<String, Vec<(char, Vec<u8>)>>,
    stateful: HashMap<String, bool>,
    aliases: HashMap<String, Vec<String>>,
    anchors: HashMap<String, String>,
    foreign: HashMap<String, String>,
}

fn load_expected(path: &str) -> Expected {
    let doc: J = serde_json::from_str(&std::fs::read_to_string(path).expect("expected table")).expect("json");
    let mut e = Expected { pairs: HashMap::new(), stateful: HashMap::new(), aliases: HashMap::new(), anchors: HashMap::new(), foreign: HashMap::new() };
    for (term, v) in doc["sets"].as_object().unwrap() {
        let ps = v["pairs"].as_array().unwrap().iter().filter_map(|p| {
            let cp = p[0].as_u64()? as u32;
            Some((char::from_u32(cp)?, unhex(p[1].as_str()?)))
        }).collect();
        e.pairs.insert(term.clone(), ps);
        e.stateful.insert(term.clone(), v["stateful"].as_bool().unwrap_or(false));
    }
    for (k, v) in doc["aliases"].as_object().unwrap() {
        e.aliases.insert(k.clone(), v.as_array().unwrap().iter().map(|s| s.as_str().unwrap().to_string()).collect());
    }
    for (k, v) in doc["anchors"].as_object().unwrap() { e.anchors.insert(k.clone(), v.as_str().unwrap().to_string()); }
    for (k, v) in doc["foreign"].as_object().unwrap() { e.foreign.insert(k.clone(), v.as_str().unwrap().to_string()); }
    e
}

fn leg_codec(cfg: &Cfg, exp: &Expected) -> Local {
    let mut total = Local::new();
    // (1) terms, aliases
    for term in TERMS {
        total.eval();
        match SpecificCharacterSet::from_code(term) {
            None => total.violation(format!("term|unresolved|{}", term), format!("defined term {:?} does not resolve", term), json!({"term": term})),
            Some(cs) => {
                if cs.name() != term {
                    total.violation(format!("term|name|{}", term), format!("from_code({:?}).name() = {:?}", term, cs.name()), json!({"term": term}));
                }
                match SpecificCharacterSet::from_code(&cs.name()) {
                    Some(cs2) if cs2 == cs => {}
                    other => total.violation(format!("term|from_code(name)|{}", term), format!("from_code(name()) gives {:?}", other.map(|c| c.name().to_string())), json!({"term": term})),
                }
                for padded in [format!("{} ", term), format!("{}  ", term)] {
                    if SpecificCharacterSet::from_code(&padded).as_ref() != Some(&cs) {
                        total.violation(format!("term|padded|{}", term), format!("{:?} (space padded CS value) does not resolve to the set", padded), json!({"term": padded}));
                    }
                }
                for alias in exp.aliases.get(term).into_iter().flatten() {
                    total.eval();
                    total.class(format!("alias|{}", alias));
                    if SpecificCharacterSet::from_code(alias).as_ref() != Some(&cs) {
                        total.violation(format!("alias|{}", alias), format!("defined term {:?} does not resolve to {}", alias, term), json!({"alias": alias}));
                    }
                }
            }
        }
    }
    // (2) exhaustive self-consistency over all Unicode scalars, in parallel per (set, plane chunk)
    let chunks: Vec<(usize, u32)> = (0..TERMS.len()).flat_map(|s| (0..0x11u32).map(move |p| (s, p))).collect();
    let part = run_parallel(
        cfg,
        10,
        RunLimits { cases: chunks.len() as u64, wall: Duration::from_secs(600) },
        |l: &mut Local, _rng: &mut Rng, idx: u64| {
            let (si, plane) = chunks[idx as usize];
            let term = TERMS[si];
            let Some(cs) = SpecificCharacterSet::from_code(term) else { return };
            let mut encodable = 0u64;
            let mut buf = [0u8; 4];
            for cp in (plane << 16)..((plane + 1) << 16) {
                let Some(c) = char::from_u32(cp) else { continue };
                // ESC, SO and SI are the code-extension controls of ISO 2022 itself, not
                // characters of a repertoire
                if term == "ISO_IR 87" && matches!(cp, 0x0E | 0x0F | 0x1B) { continue; }
                let s: &str = c.encode_utf8(&mut buf);
                l.eval();
                if let Ok(bytes) = cs.encode(s) {
                    encodable += 1;
                    match cs.decode(&bytes) {
                        Ok(back) if back == s => {}
                        Ok(back) => l.violation(
                            format!("codec|asymmetric|{}|U+{:04X}", term, cp),
                            format!("{}: U+{:04X} encodes to {} which decodes to {:?}", term, cp, hex(&bytes), back),
                            json!({"term": term, "codepoint": cp}),
                        ),
                        Err(e) => l.violation(format!("codec|decode-error|{}", term), format!("{}: U+{:04X} encodes to {} which fails to decode: {}", term, cp, hex(&bytes), e), json!({"term": term, "codepoint": cp})),
                    }
                }
            }
            l.count(&format!("encodable|{}", term), encodable);
            if encodable > 0 {
                l.class(format!("scalars|{}|plane{}", term, plane));
            }
        },
    );
    total.merge(part);
    // (3) anchors, foreign characters, independent tables, strings
    let mut rng = Rng::derive(cfg.seed, 101, 0);
    for term in TERMS {
        let Some(cs) = SpecificCharacterSet::from_code(term) else { continue };
        for c in exp.anchors.get(term).map(|s| s.as_str()).unwrap_or("").chars() {
            total.eval();
            let s = c.to_string();
            match cs.encode(&s) {
                Ok(b) => {
                    if cs.decode(&b).ok().as_deref() != Some(&s) {
                        total.violation(format!("anchor|roundtrip|{}", term), format!("{}: anchor {:?} does not round trip", term, c), json!({"term": term, "char": s}));
                    }
                }
                Err(_) => total.violation(format!("anchor|unencodable|{}", term), format!("{}: cannot encode {:?}, a character of its repertoire", term, c), json!({"term": term, "char": s})),
            }
        }
        for c in exp.foreign.get(term).map(|s| s.as_str()).unwrap_or("").chars() {
            total.eval();
            let s = c.to_string();
            if let Ok(b) = cs.encode(&s) {
                total.violation(format!("foreign|accepted|{}", term), format!("{}: foreign character {:?} was encoded as {} instead of failing", term, c, hex(&b)), json!({"term": term, "char": s}));
            }
            // inside a longer string too
            let mixed = format!("AB{}CD", c);
            if let Ok(b) = cs.encode(&mixed) {
                total.violation(format!("foreign|accepted-in-string|{}", term), format!("{}: {:?} was encoded as {}", term, mixed, hex(&b)), json!({"term": term, "text": mixed}));
            }
        }
        let pairs = exp.pairs.get(term).cloned().unwrap_or_default();
        let mut table_ok = 0u64;
        for (c, want) in &pairs {
            total.eval();
            let s = c.to_string();
            match cs.encode(&s) {
                Ok(b) if &b == want => { table_ok += 1; }
                // ISO 2022: the independent codec appends the return-to-ASCII sequence ESC ( B
                // at the end of every encoded string; the property does not require it
                Ok(b) if term == "ISO_IR 87" && want.ends_with(&[0x1b, 0x28, 0x42]) && b[..] == want[..want.len() - 3] => { table_ok += 1; }
                Ok(b) => total.violation(format!("table|bytes|{}", term), format!("{}: U+{:04X} {:?} encodes to {} but the independent table says {}", term, *c as u32, c, hex(&b), hex(want)), json!({"term": term, "codepoint": *c as u32})),
                Err(_) => total.violation(format!("table|unencodable|{}", term), format!("{}: U+{:04X} {:?} cannot be encoded (independent table: {})", term, *c as u32, c, hex(want)), json!({"term": term, "codepoint": *c as u32})),
            }
            match cs.decode(want) {
                Ok(back) if back == s => {}
                other => total.violation(format!("table|decode|{}", term), format!("{}: bytes {} decode to {:?}, the independent table says {:?}", term, hex(want), other.ok(), c), json!({"term": term, "codepoint": *c as u32})),
            }
        }
        total.count(&format!("table_pairs_agreeing|{}", term), table_ok);
        // random strings over the table repertoire (+ ASCII)
        let mut pool: Vec<char> = pairs.iter().map(|p| p.0).collect();
        pool.extend("ABCxyz019 ^=".chars());
        for k in 0..cfg.n(2_000, 50_000) {
            let n = rng.urange(1, 40);
            let s: String = (0..n).map(|_| *rng.pick(&pool)).collect();
            total.eval();
            match cs.encode(&s) {
                Ok(b) => {
                    if cs.decode(&b).ok().as_deref() != Some(&s[..]) {
                        total.violation(format!("string|roundtrip|{}", term), format!("{}: {:?} encodes to {} which decodes to {:?}", term, s, hex_short(&b, 80), cs.decode(&b).ok()), json!({"term": term, "text": s}));
                    }
                    if !exp.stateful.get(term).copied().unwrap_or(false) {
                        // stateless sets: string bytes are the concatenation of the table bytes
                        let mut want = Vec::new();
                        for c in s.chars() {
                            if c.is_ascii() { want.push(c as u8); } else { want.extend_from_slice(&pairs.iter().find(|p| p.0 == c).unwrap().1); }
                        }
                        if b != want {
                            total.violation(format!("string|bytes|{}", term), format!("{}: {:?} encodes to {} expected {}", term, s, hex_short(&b, 80), hex_short(&want, 80)), json!({"term": term, "text": s}));
                        }
                    }
                }
                Err(e) => total.violation(format!("string|unencodable|{}", term), format!("{}: {:?} failed to encode: {}", term, s, e), json!({"term": term, "text": s})),
            }
            if k == 0 && total.want_sample() {
                total.sample(json!({"term": term, "text": s, "encoded": hex_short(&cs.encode(&s).unwrap_or_default(), 60)}));
            }
        }
        total.class(format!("strings|{}", term));
    }
    total
}

/// charset VRs (affected by Specific Character Set) and default-repertoire VRs
const CS_VRS: [(VR, (u16, u16), bool); 7] = [
    (VR::PN, (0x0010, 0x0010), true),
    (VR::LO, (0x0010, 0x0020), true),
    (VR::SH, (0x0008, 0x0050), true),
    (VR::UC, (0x0008, 0x0119), true),
    (VR::LT, (0x0010, 0x21B0), false),
    (VR::ST, (0x0008, 0x0081), false),
    (VR::UT, (0x0040, 0xA160), false),
];

fn leg_dataset(cfg: &Cfg, exp: &Expected) -> Local {
    let tss = crate::props::c01::four_ts();
    let n = cfg.n(6_000, 150_000);
    run_parallel(
        cfg,
        102,
        RunLimits { cases: n, wall: Duration::from_secs(if cfg.thorough() { 900 } else { 90 }) },
        |l: &mut Local, rng: &mut Rng, idx: u64| {
            let term = *rng.pick(&TERMS);
            let Some(cs) = SpecificCharacterSet::from_code(term) else { return };
            let pairs = exp.pairs.get(term).cloned().unwrap_or_default();
            // characters whose encoding contains the byte 0x5C are kept apart (own violation key)
            let safe: Vec<char> = pairs.iter().filter(|p| !p.1.contains(&0x5C)).map(|p| p.0).collect();
            let with5c: Vec<char> = pairs.iter().filter(|p| p.1.contains(&0x5C)).map(|p| p.0).collect();
            let use5c = !with5c.is_empty() && rng.chance(1, 4);
            let mut gen_text = |rng: &mut Rng, hot: bool| -> String {
                let n = rng.urange(1, 12);
                let mut s: String = (0..n).map(|_| if !safe.is_empty() && rng.chance(2, 3) { *rng.pick(&safe) } else { *rng.pick(&['A', 'b', '7', 'Z']) }).collect();
                if hot {
                    let mut cs: Vec<char> = s.chars().collect();
                    let at = rng.usize(cs.len() + 1);
                    cs.insert(at, *rng.pick(&with5c));
                    s = cs.into_iter().collect();
                }
                s
            };
            let ti = rng.usize(4);
            let tc = &tss[ti];
            let mut elems: Vec<DataElement<InMemDicomObject>> = Vec::new();
            // Specific Character Set as a single string (what an application builds) or as a
            // one-element list (what the reader produces): the writer must switch codec for both
            let cs_as_list = idx % 2 == 1;
            elems.push(DataElement::new(Tag(0x0008, 0x0005), VR::CS, if cs_as_list { PrimitiveValue::Strs([term.to_string()].into_iter().collect()) } else { PrimitiveValue::from(term) }));
            // default-repertoire VRs stay ASCII
            elems.push(DataElement::new(Tag(0x0008, 0x0016), VR::UI, PrimitiveValue::from("1.2.840.10008.5.1.4.1.1.7")));
            elems.push(DataElement::new(Tag(0x0008, 0x0020), VR::DA, PrimitiveValue::from("20240229")));
            elems.push(DataElement::new(Tag(0x0008, 0x0054), VR::AE, PrimitiveValue::from("STORE_SCP")));
            elems.push(DataElement::new(Tag(0x0008, 0x0060), VR::CS, PrimitiveValue::from("MR")));
            let mut expected: Vec<((u16, u16), VR, Vec<String>, bool)> = Vec::new();
            for (vr, tag, multi) in CS_VRS {
                if rng.chance(1, 3) { continue; }
                let hot = use5c && rng.bool();
                let k = if multi { rng.urange(1, 3) } else { 1 };
                let vals: Vec<String> = (0..k).map(|_| gen_text(rng, hot)).collect();
                let pv = if multi { PrimitiveValue::Strs(vals.iter().cloned().collect()) } else { PrimitiveValue::Str(vals[0].clone()) };
                elems.push(DataElement::new(Tag(tag.0, tag.1), vr, pv));
                expected.push((tag, vr, vals, hot));
            }
            let obj = InMemDicomObject::from_element_iter(elems);
            let replay = json!({"seed": cfg.seed, "stream": 102, "case": idx, "leg": "dataset", "term": term, "ts": tc.name,
                "values": expected.iter().map(|e| json!({"tag": format!("{:04X}{:04X}", e.0.0, e.0.1), "vr": e.1.to_string(), "values": e.2})).collect::<Vec<_>>()});
            l.eval();
            l.class(format!("dataset|{}|{}|5c={}|cs-as-list={}", term, tc.name, use5c, cs_as_list));
            let mut bytes = Vec::new();
            if let Err(e) = obj.write_dataset_with_ts(&mut bytes, &tc.ts) {
                l.violation(format!("dataset|write-error|{}", term), err_chain(&e), replay);
                return;
            }
            // (i) bytes on the wire: locate the values with the harness' own walk of the
            // (uncompressed) stream and compare with table bytes
            if ti < 3 && !exp.stateful.get(term).copied().unwrap_or(false) {
                let ts = refenc::Ts::ALL[ti];
                let big = ts.big();
                let mut off = 0usize;
                let rd16 = |b: &[u8]| if big { u16::from_be_bytes([b[0], b[1]]) } else { u16::from_le_bytes([b[0], b[1]]) };
                let rd32 = |b: &[u8]| if big { u32::from_be_bytes([b[0], b[1], b[2], b[3]]) } else { u32::from_le_bytes([b[0], b[1], b[2], b[3]]) };
                while off + 8 <= bytes.len() {
                    let tag = (rd16(&bytes[off..]), rd16(&bytes[off + 2..]));
                    let (len, hl) = if ts.explicit() {
                        let vr = std::str::from_utf8(&bytes[off + 4..off + 6]).unwrap_or("??");
                        if ["OB", "OW", "OF", "SQ", "UT", "UN", "UC", "UR", "OD", "OL", "OV", "SV", "UV"].contains(&vr) { (rd32(&bytes[off + 8..]) as usize, 12) } else { (rd16(&bytes[off + 6..]) as usize, 8) }
                    } else { (rd32(&bytes[off + 4..]) as usize, 8) };
                    if off + hl + len > bytes.len() { break; }
                    let val = &bytes[off + hl..off + hl + len];
                    if let Some((_, vr, vals, hot)) = expected.iter().find(|e| e.0 == tag) {
                        let mut want = Vec::new();
                        for (i, v) in vals.iter().enumerate() {
                            if i > 0 { want.push(b'\\'); }
                            for c in v.chars() {
                                if c.is_ascii() { want.push(c as u8); } else if let Some(p) = pairs.iter().find(|p| p.0 == c) { want.extend_from_slice(&p.1); }
                            }
                        }
                        if want.len() % 2 == 1 { want.push(b' '); }
                        l.eval();
                        if val != &want[..] {
                            l.violation(format!("dataset|wire-bytes|{}|vr={}|5c={}", term, vr, hot), format!("{} value of {} written as {} but the set encodes it as {}", vr, term, hex_short(val, 64), hex_short(&want, 64)), replay.clone());
                        }
                    } else if tag != (0x0008, 0x0005) && val.iter().any(|b| *b >= 0x80) {
                        l.violation(format!("dataset|default-repertoire-vr|{}", term), format!("element ({:04X},{:04X}) restricted to the default repertoire contains non-ASCII bytes", tag.0, tag.1), replay.clone());
                    }
                    off += hl + len;
                }
            }
            // (ii) read back
            match guarded(|| InMemDicomObject::read_dataset_with_ts(&bytes[..], &tc.ts)) {
                Err(p) => l.violation(format!("dataset|read-panic|{}", panic_loc(&p)), p, replay.clone()),
                Ok(Err(e)) => l.violation(format!("dataset|read-error|{}", term), err_chain(&e), replay.clone()),
                Ok(Ok(back)) => {
                    for (tag, vr, vals, hot) in &expected {
                        l.eval();
                        let got: Option<Vec<String>> = back.get(Tag(tag.0, tag.1)).and_then(|e| match e.value() {
                            Value::Primitive(PrimitiveValue::Strs(v)) => Some(v.iter().map(|s| s.trim_end_matches([' ', '\0']).to_string()).collect()),
                            Value::Primitive(PrimitiveValue::Str(s)) => Some(vec![s.trim_end_matches([' ', '\0']).to_string()]),
                            _ => None,
                        });
                        let want: Vec<String> = vals.iter().map(|s| s.trim_end_matches(' ').to_string()).collect();
                        if got.as_ref() != Some(&want) {
                            l.violation(
                                format!("dataset|readback|{}|vr={}|5c={}", term, vr, hot),
                                format!("{} under {}: wrote {:?}, read back {:?}", vr, term, want, got),
                                replay.clone(),
                            );
                        }
                    }
                    for (tag, want) in [((0x0008u16, 0x0016u16), "1.2.840.10008.5.1.4.1.1.7"), ((0x0008, 0x0020), "20240229"), ((0x0008, 0x0054), "STORE_SCP"), ((0x0008, 0x0060), "MR")] {
                        let got = back.get(Tag(tag.0, tag.1)).and_then(|e| e.value().to_str().ok().map(|s| s.trim_end_matches([' ', '\0']).to_string()));
                        if got.as_deref() != Some(want) {
                            l.violation(format!("dataset|default-vr-readback|{}", term), format!("({:04X},{:04X}) read back as {:?}", tag.0, tag.1, got), replay.clone());
                        }
                    }
                }
            }
            if l.want_sample() && idx % 577 == 0 {
                l.sample(replay_sample(&replay));
            }
        },
    )
}

fn replay_sample(r: &J) -> J {
    json!({"term": r["term"], "ts": r["ts"], "values": r["values"]})
}

/// Changing the Specific Character Set of a *decoded* object (explicit-length sequences and items
/// recorded) and writing it again: nested text must be re-encoded with the new set and the output
/// must read back unchanged under every writer strategy.
fn leg_recode(cfg: &Cfg) -> Local {
    use crate::gen::tree::{GElem, GItem, GSeq, GVal};
    use crate::props::c01::{write_with, Api};
    use crate::refenc::{LenMode, Ts};
    use dicom_core::ops::{ApplyOp, AttributeAction, AttributeOp};
    const PAIRS: [(&str, &str, &str); 6] = [
        ("ISO_IR 100", "ISO_IR 192", "\u{e9}\u{fc}\u{f1}\u{c5}\u{df}"),
        ("ISO_IR 192", "ISO_IR 100", "\u{e9}\u{fc}\u{f1}\u{c5}\u{df}"),
        ("ISO_IR 144", "ISO_IR 192", "\u{416}\u{434}\u{44f}\u{429}"),
        ("ISO_IR 192", "ISO_IR 144", "\u{416}\u{434}\u{44f}\u{429}"),
        ("ISO_IR 126", "ISO_IR 192", "\u{3b1}\u{3b2}\u{3b3}\u{3a9}"),
        ("ISO_IR 192", "ISO_IR 126", "\u{3b1}\u{3b2}\u{3b3}\u{3a9}"),
    ];
    let tss = crate::props::c01::four_ts();
    let n = cfg.n(3_000, 60_000);
    run_parallel(
        cfg,
        103,
        RunLimits { cases: n, wall: Duration::from_secs(if cfg.thorough() { 600 } else { 60 }) },
        |l: &mut Local, rng: &mut Rng, idx: u64| {
            let (from, to, sample) = *rng.pick(&PAIRS);
            let sample: Vec<char> = sample.chars().collect();
            let k = rng.urange(1, 9);
            let mut text: String = (0..k).map(|_| if rng.bool() { *rng.pick(&sample) } else { *rng.pick(&['A', 'b', '7', ' ', 'Z']) }).collect();
            if rng.bool() { text.insert(0, *rng.pick(&sample)); } else { text.push(*rng.pick(&sample)); }
            let text = text.trim_matches(' ').to_string();
            let Some(codec) = SpecificCharacterSet::from_code(from) else { return };
            let Ok(raw) = codec.encode(&text) else { return };
            let ti = rng.usize(3);
            let tc = &tss[ti];
            let ts = Ts::ALL[ti];
            let ds = vec![
                GElem { tag: (0x0008, 0x0005), vr: VR::CS, val: GVal::Strs(vec![from.to_string()]) },
                GElem { tag: (0x0008, 0x1140), vr: VR::SQ, val: GVal::Seq(GSeq { explicit: rng.chance(3, 4), items: vec![
                    GItem { explicit: rng.chance(3, 4), elems: vec![GElem { tag: (0x0008, 0x103E), vr: VR::LO, val: GVal::U8(raw.clone()) }] },
                    GItem { explicit: rng.bool(), elems: vec![GElem { tag: (0x0008, 0x0050), vr: VR::SH, val: GVal::Strs(vec!["ACC".into()]) }] },
                ] }) },
                GElem { tag: (0x0010, 0x0010), vr: VR::PN, val: GVal::U8(raw.clone()) },
            ];
            let enc = refenc::encode(&ds, ts, LenMode::AsMarked);
            let replay = json!({"seed": cfg.seed, "stream": 103, "case": idx, "leg": "dataset", "from": from, "to": to, "text": text, "ts": tc.name, "stream_hex": hex_short(&enc.bytes, 400)});
            let nested = |o: &InMemDicomObject| -> Option<String> {
                let sq = o.get(Tag(0x0008, 0x1140))?;
                let it = sq.items()?.first()?;
                Some(it.get(Tag(0x0008, 0x103E))?.to_str().ok()?.trim_end().to_string())
            };
            let top = |o: &InMemDicomObject| -> Option<String> { Some(o.get(Tag(0x0010, 0x0010))?.to_str().ok()?.trim_end().to_string()) };
            let Ok(obj0) = InMemDicomObject::read_dataset_with_ts(&enc.bytes[..], &tc.ts) else { l.count("recode_setup_unreadable", 1); return };
            if nested(&obj0).as_deref() != Some(text.as_str()) || top(&obj0).as_deref() != Some(text.as_str()) {
                l.count("recode_setup_mismatch", 1);
                return;
            }
            for method in ["update_value", "put", "apply-SetStr", "apply-Set"] {
                let mut obj = obj0.clone();
                match method {
                    "update_value" => { obj.update_value(Tag(0x0008, 0x0005), |v| *v = PrimitiveValue::from(to).into()); }
                    "put" => { obj.put(DataElement::new(Tag(0x0008, 0x0005), VR::CS, PrimitiveValue::from(to))); }
                    "apply-SetStr" => { let _ = obj.apply(AttributeOp::new(Tag(0x0008, 0x0005), AttributeAction::SetStr(to.into()))); }
                    _ => { let _ = obj.apply(AttributeOp::new(Tag(0x0008, 0x0005), AttributeAction::Set(PrimitiveValue::from(to)))); }
                }
                for (an, api) in [("default", Api::Default), ("SetUndefined", Api::SetUndefined), ("NoChange", Api::NoChange)] {
                    l.eval();
                    l.class(format!("recode|{}>{}|{}|{}|{}", from, to, method, an, tc.name));
                    let key = |k: &str| format!("recode|{}>{}|{}|{}|{}", from, to, method, an, k);
                    let out = match guarded(|| write_with(&obj, &tc.ts, api)) {
                        Err(p) => { l.violation(key(&format!("panic|{}", panic_loc(&p))), p, replay.clone()); continue; }
                        Ok(Err(e)) => { l.violation(key("write-error"), e, replay.clone()); continue; }
                        Ok(Ok(b)) => b,
                    };
                    match guarded(|| InMemDicomObject::read_dataset_with_ts(&out[..], &tc.ts)) {
                        Err(p) => l.violation(key(&format!("read-panic|{}", panic_loc(&p))), p, replay.clone()),
                        Ok(Err(e)) => l.violation(key("read-back-error"), format!("the rewritten data set cannot be read: {}", err_chain(&e)), replay.clone()),
                        Ok(Ok(back)) => {
                            let cs = back.get(Tag(0x0008, 0x0005)).and_then(|e| e.to_str().ok().map(|s| s.trim_end().to_string()));
                            if cs.as_deref() != Some(to) || nested(&back).as_deref() != Some(text.as_str()) || top(&back).as_deref() != Some(text.as_str()) {
                                l.violation(key("text-differs"), format!("after changing the character set from {} to {} the text {:?} reads back as nested {:?} / top-level {:?} (set {:?})", from, to, text, nested(&back), top(&back), cs), replay.clone());
                            }
                        }
                    }
                }
            }
        },
    )
}

pub fn run(cfg: &Cfg) -> Outcome {
    let leg = cfg.opt("--leg").unwrap_or_else(|| "codec".into());
    let exp = load_expected(cfg.input.as_deref().expect("--in <charset table>"));
    if leg == "dataset" {
        let mut dl = leg_dataset(cfg, &exp);
        dl.merge(leg_recode(cfg));
        let mut o = Outcome::new(dl, "[plus: decoded objects with explicit-length sequences whose Specific Character Set is changed (update_value / put / apply) and which are written again with each writer strategy: nested and top-level text reads back unchanged in the new set] data sets starting with (0008,0005)=<term> followed by PN/LO/SH/UC (multi-valued) and LT/ST/UT values drawn from the set's repertoire (table of the independent Python codecs; characters whose encoding contains byte 0x5C exercised separately) and ASCII UI/DA/AE/CS values; written in 4 transfer syntaxes; monitors: wire bytes of each value == table bytes (+pad), default-repertoire VRs stay ASCII, read-back == written text");
        o.min_evaluations = 2000;
        o.min_classes = 40;
        o
    } else {
        let mut o = Outcome::new(leg_codec(cfg, &exp), "all 16 supported sets: defined terms and aliases resolve and map back; exhaustive over all 1 112 064 Unicode scalars per set: whenever encode succeeds, decode(encode(c)) == c; anchor characters encode; clearly foreign characters are refused (alone and inside a string); encode/decode agree with independent Python codec tables for letters/ideographs; random strings over each repertoire round-trip and (stateless sets) equal the concatenated table bytes");
        o.exhaustive = true;
        o.min_evaluations = 1_000_000;
        o.min_classes = 30;
        o
    }
}
