//! C09 — file meta group: recorded group length == bytes following the group length element,
//! write→read equality, both preserved by any supported attribute operation; files read back
//! identically by path / from a byte source, with or without the 128-byte preamble.

use crate::gen::ds::{gen_dataset, DsOpts};
use crate::gen::tree::*;
use crate::objeq::same_object;
use crate::report::*;
use crate::rng::Rng;
use dicom_core::ops::{ApplyOp, AttributeAction, AttributeOp};
use dicom_core::value::PrimitiveValue;
use dicom_core::{Tag, VR};
use dicom_object::file::{OpenFileOptions, ReadPreamble};
use dicom_object::meta::{FileMetaTable, FileMetaTableBuilder};
use serde_json::json;
use std::time::Duration;

#[derive(Clone, Debug, PartialEq)]
struct Model {
    sop_class: String,
    sop_instance: String,
    ts: String,
    impl_class: String,
    impl_version: Option<String>,
    source_ae: Option<String>,
    sending_ae: Option<String>,
    receiving_ae: Option<String>,
    private_creator: Option<String>,
    private_info: Option<Vec<u8>>,
}

fn uid(rng: &mut Rng) -> String {
    let n = rng.urange(1, 9);
    let mut s = String::from("1");
    for _ in 0..n {
        s += &format!(".{}", rng.below(100000));
        if s.len() > 56 {
            break;
        }
    }
    s
}

fn text(rng: &mut Rng, max: usize) -> String {
    let n = rng.urange(1, max);
    let alpha = b"ABCDEFGHIJKLMNOPQRSTUVWXYZabcdefghijklmnopqrstuvwxyz0123456789_-.";
    (0..n).map(|_| *rng.pick(alpha) as char).collect()
}

fn trimmed(s: &str) -> &str {
    s.trim_end_matches(|c: char| c.is_whitespace() || c == '\0')
}

fn build(m: &Model) -> Result<FileMetaTable, String> {
    let mut b = FileMetaTableBuilder::new()
        .media_storage_sop_class_uid(m.sop_class.clone())
        .media_storage_sop_instance_uid(m.sop_instance.clone())
        .transfer_syntax(m.ts.clone())
        .implementation_class_uid(m.impl_class.clone());
    if let Some(v) = &m.impl_version { b = b.implementation_version_name(v.clone()); }
    if let Some(v) = &m.source_ae { b = b.source_application_entity_title(v.clone()); }
    if let Some(v) = &m.sending_ae { b = b.sending_application_entity_title(v.clone()); }
    if let Some(v) = &m.receiving_ae { b = b.receiving_application_entity_title(v.clone()); }
    if let Some(v) = &m.private_creator { b = b.private_information_creator_uid(v.clone()); }
    if let Some(v) = &m.private_info { b = b.private_information(v.clone()); }
    b.build().map_err(|e| err_chain(&e))
}

fn observe(t: &FileMetaTable) -> Model {
    Model {
        sop_class: trimmed(&t.media_storage_sop_class_uid).to_string(),
        sop_instance: trimmed(&t.media_storage_sop_instance_uid).to_string(),
        ts: trimmed(&t.transfer_syntax).to_string(),
        impl_class: trimmed(&t.implementation_class_uid).to_string(),
        impl_version: t.implementation_version_name.as_deref().map(|s| trimmed(s).to_string()),
        source_ae: t.source_application_entity_title.as_deref().map(|s| trimmed(s).to_string()),
        sending_ae: t.sending_application_entity_title.as_deref().map(|s| trimmed(s).to_string()),
        receiving_ae: t.receiving_application_entity_title.as_deref().map(|s| trimmed(s).to_string()),
        private_creator: t.private_information_creator_uid.as_deref().map(|s| trimmed(s).to_string()),
        private_info: t.private_information.clone(),
    }
}

/// group length + round trip monitor; returns Err(kind, detail)
fn check_table(t: &FileMetaTable) -> Result<usize, (String, String)> {
    let mut out = Vec::new();
    t.write(&mut out).map_err(|e| ("write-error".to_string(), err_chain(&e)))?;
    // independent structural walk of the group (explicit VR LE)
    if out.len() < 12 || out[0..8] != [0x02, 0x00, 0x00, 0x00, b'U', b'L', 0x04, 0x00] {
        return Err(("layout".into(), format!("group does not start with (0002,0000) UL 4: {}", hex_short(&out, 16))));
    }
    let declared = u32::from_le_bytes([out[8], out[9], out[10], out[11]]) as usize;
    if declared != out.len() - 12 {
        return Err(("group-length-on-wire".into(), format!("written group length {} but {} bytes follow the group length element", declared, out.len() - 12)));
    }
    if t.information_group_length as usize != out.len() - 12 {
        return Err(("group-length-field".into(), format!("information_group_length {} but {} bytes follow the group length element", t.information_group_length, out.len() - 12)));
    }
    // element walk: sizes must add up, lengths even, all in group 0002
    let mut off = 12;
    let mut last = (2u16, 0u16);
    while off < out.len() {
        if off + 8 > out.len() { return Err(("layout".into(), "truncated element header".into())); }
        let g = u16::from_le_bytes([out[off], out[off + 1]]);
        let e = u16::from_le_bytes([out[off + 2], out[off + 3]]);
        let vr = [out[off + 4], out[off + 5]];
        let (len, hl) = if matches!(&vr, b"OB" | b"UN" | b"UT" | b"SQ" | b"OW") {
            if off + 12 > out.len() { return Err(("layout".into(), "truncated long header".into())); }
            (u32::from_le_bytes([out[off + 8], out[off + 9], out[off + 10], out[off + 11]]) as usize, 12)
        } else {
            (u16::from_le_bytes([out[off + 6], out[off + 7]]) as usize, 8)
        };
        if g != 2 { return Err(("layout".into(), format!("element ({:04X},{:04X}) inside the meta group", g, e))); }
        if (g, e) <= last { return Err(("layout".into(), format!("elements out of order at ({:04X},{:04X})", g, e))); }
        if len % 2 == 1 { return Err(("odd-length".into(), format!("element ({:04X},{:04X}) has odd length {}", g, e, len))); }
        last = (g, e);
        off += hl + len;
    }
    if off != out.len() { return Err(("layout".into(), "last element overruns the group".into())); }
    // read back
    let mut stream = b"DICM".to_vec();
    stream.extend_from_slice(&out);
    let back = FileMetaTable::from_reader(&stream[..]).map_err(|e| ("read-error".to_string(), err_chain(&e)))?;
    if &back != t {
        return Err(("roundtrip-ne".into(), format!("table read back differs: {:?} vs {:?}", observe(&back), observe(t))));
    }
    if observe(&back) != observe(t) {
        // field-level comparison stricter than PartialEq only for the optional/empty distinction
        let (a, b) = (observe(&back), observe(t));
        let norm = |m: &Model| { let mut m = m.clone(); if let Some(p) = &mut m.private_info { if p.len() % 2 == 1 { p.push(0); } } m };
        if norm(&a) != norm(&b) {
            return Err(("roundtrip-fields".into(), format!("fields read back differ: {:?} vs {:?}", a, b)));
        }
    }
    Ok(out.len())
}

const TAGS: [(u16, &str); 12] = [
    (0x0002, "sop_class"), (0x0003, "sop_instance"), (0x0010, "ts"), (0x0012, "impl_class"),
    (0x0013, "impl_version"), (0x0016, "source_ae"), (0x0017, "sending_ae"), (0x0018, "receiving_ae"),
    (0x0100, "private_creator"), (0x0102, "private_info"), (0x0001, "version"), (0x0026, "unsupported"),
];

fn field<'a>(m: &'a mut Model, name: &str) -> Option<(&'a mut Option<String>, bool)> {
    // returns (slot, required) with required fields wrapped as Some
    let _ = (m, name);
    None
}

fn apply_model(m: &Model, name: &str, action: &AttributeAction) -> Vec<Model> {
    // set of acceptable states after an Ok result, from the documented semantics
    let _ = field;
    let required = matches!(name, "sop_class" | "sop_instance" | "ts" | "impl_class");
    let get = |m: &Model| -> Option<String> {
        match name {
            "sop_class" => Some(m.sop_class.clone()),
            "sop_instance" => Some(m.sop_instance.clone()),
            "ts" => Some(m.ts.clone()),
            "impl_class" => Some(m.impl_class.clone()),
            "impl_version" => m.impl_version.clone(),
            "source_ae" => m.source_ae.clone(),
            "sending_ae" => m.sending_ae.clone(),
            "receiving_ae" => m.receiving_ae.clone(),
            "private_creator" => m.private_creator.clone(),
            _ => None,
        }
    };
    let set = |m: &Model, v: Option<String>| -> Model {
        let mut m = m.clone();
        match name {
            "sop_class" => m.sop_class = v.unwrap_or_default(),
            "sop_instance" => m.sop_instance = v.unwrap_or_default(),
            "ts" => m.ts = v.unwrap_or_default(),
            "impl_class" => m.impl_class = v.unwrap_or_default(),
            "impl_version" => m.impl_version = v,
            "source_ae" => m.source_ae = v,
            "sending_ae" => m.sending_ae = v,
            "receiving_ae" => m.receiving_ae = v,
            "private_creator" => m.private_creator = v,
            _ => {}
        }
        m
    };
    if matches!(name, "private_info" | "version" | "unsupported") {
        // not a supported attribute: an Ok result must leave the table as it was
        return vec![m.clone()];
    }
    let cur = get(m);
    let tr = |s: &str| trimmed(s).to_string();
    match action {
        AttributeAction::Remove => if required { vec![m.clone()] } else { vec![set(m, None)] },
        AttributeAction::Empty => if required { vec![m.clone()] } else { vec![set(m, cur.map(|_| String::new()))] },
        AttributeAction::SetVr(_) => vec![m.clone()],
        AttributeAction::Set(PrimitiveValue::Str(s)) => vec![set(m, Some(tr(s)))],
        AttributeAction::SetStr(s) => vec![set(m, Some(tr(s)))],
        AttributeAction::SetIfMissing(PrimitiveValue::Str(s)) => if cur.is_some() { vec![m.clone()] } else { vec![set(m, Some(tr(s)))] },
        AttributeAction::SetStrIfMissing(s) => if cur.is_some() { vec![m.clone()] } else { vec![set(m, Some(tr(s)))] },
        AttributeAction::Replace(PrimitiveValue::Str(s)) => if cur.is_some() { vec![set(m, Some(tr(s)))] } else { vec![m.clone()] },
        AttributeAction::ReplaceStr(s) => if cur.is_some() { vec![set(m, Some(tr(s)))] } else { vec![m.clone()] },
        AttributeAction::Truncate(n) => {
            if *n == 0 { vec![m.clone(), set(m, cur.map(|_| String::new()))] } else { vec![m.clone()] }
        }
        // anything else that returns Ok must not have changed other fields; the target field is
        // left unconstrained only for actions whose effect on a text field is undocumented
        _ => vec![m.clone()],
    }
}

fn action_name(a: &AttributeAction) -> &'static str {
    match a {
        AttributeAction::Remove => "Remove",
        AttributeAction::Empty => "Empty",
        AttributeAction::SetVr(_) => "SetVr",
        AttributeAction::Set(_) => "Set",
        AttributeAction::SetStr(_) => "SetStr",
        AttributeAction::SetIfMissing(_) => "SetIfMissing",
        AttributeAction::SetStrIfMissing(_) => "SetStrIfMissing",
        AttributeAction::Replace(_) => "Replace",
        AttributeAction::ReplaceStr(_) => "ReplaceStr",
        AttributeAction::PushStr(_) => "PushStr",
        AttributeAction::PushI32(_) => "PushI32",
        AttributeAction::PushU32(_) => "PushU32",
        AttributeAction::PushI16(_) => "PushI16",
        AttributeAction::PushU16(_) => "PushU16",
        AttributeAction::PushF32(_) => "PushF32",
        AttributeAction::PushF64(_) => "PushF64",
        AttributeAction::Truncate(_) => "Truncate",
        _ => "Other",
    }
}

fn gen_action(rng: &mut Rng, uidlike: bool) -> AttributeAction {
    let s = if uidlike { uid(rng) } else { text(rng, 16) };
    match rng.usize(17) {
        0 => AttributeAction::Remove,
        1 => AttributeAction::Empty,
        2 => AttributeAction::SetVr(VR::LO),
        3 => AttributeAction::Set(PrimitiveValue::Str(s)),
        4 => AttributeAction::SetStr(s.into()),
        5 => AttributeAction::SetIfMissing(PrimitiveValue::Str(s)),
        6 => AttributeAction::SetStrIfMissing(s.into()),
        7 => AttributeAction::Replace(PrimitiveValue::Str(s)),
        8 => AttributeAction::ReplaceStr(s.into()),
        9 => AttributeAction::PushStr(s.into()),
        10 => AttributeAction::PushI32(-5),
        11 => AttributeAction::PushU16(7),
        12 => AttributeAction::PushF64(1.5),
        13 => AttributeAction::Truncate(rng.usize(3)),
        14 => AttributeAction::Set(PrimitiveValue::from(42u16)),
        15 => AttributeAction::SetIfMissing(PrimitiveValue::from(42u16)),
        _ => AttributeAction::Replace(PrimitiveValue::Empty),
    }
}

pub fn run(cfg: &Cfg) -> Outcome {
    let leg = cfg.opt("--leg").unwrap_or_else(|| "tables".into());
    if leg == "files" {
        return run_files(cfg);
    }
    let n = cfg.n(30_000, 800_000);
    let local = run_parallel(
        cfg,
        9,
        RunLimits { cases: n, wall: Duration::from_secs(if cfg.thorough() { 600 } else { 60 }) },
        |l: &mut Local, rng: &mut Rng, idx: u64| {
            let opt = |rng: &mut Rng, f: &mut dyn FnMut(&mut Rng) -> String| if rng.bool() { Some(f(rng)) } else { None };
            let mut m = Model {
                sop_class: uid(rng), sop_instance: uid(rng), ts: uid(rng), impl_class: uid(rng),
                impl_version: opt(rng, &mut |r| text(r, 16)),
                source_ae: opt(rng, &mut |r| text(r, 16)),
                sending_ae: opt(rng, &mut |r| text(r, 16)),
                receiving_ae: opt(rng, &mut |r| text(r, 16)),
                private_creator: None, private_info: None,
            };
            if rng.chance(1, 3) {
                m.private_creator = Some(uid(rng));
                let k = rng.usize(12);
                m.private_info = Some(rng.bytes(k));
            }
            let replay = |hist: &Vec<String>| json!({"seed": cfg.seed, "stream": 9, "case": idx, "initial": format!("{:?}", m), "history": hist});
            let mut t = match build(&m) {
                Ok(t) => t,
                Err(e) => { l.violation("build-error", e, replay(&vec![])); return; }
            };
            l.eval();
            let shape = format!("opt{}{}{}{}|priv{}", m.impl_version.is_some() as u8, m.source_ae.is_some() as u8, m.sending_ae.is_some() as u8, m.receiving_ae.is_some() as u8,
                m.private_info.as_ref().map(|p| if p.len() % 2 == 1 { "odd" } else { "even" }).unwrap_or("none"));
            l.class(format!("table|{}|parity{}{}{}{}", shape, m.sop_class.len() % 2, m.sop_instance.len() % 2, m.ts.len() % 2, m.impl_class.len() % 2));
            if let Err((k, d)) = check_table(&t) {
                l.violation(format!("built|{}", k), d, replay(&vec![]));
                return;
            }
            // the builder computed the model we expect
            if observe(&t) != m {
                l.violation("built|fields", format!("built table {:?} differs from the builder input {:?}", observe(&t), m), replay(&vec![]));
                return;
            }
            let mut cur = m.clone();
            let mut hist = Vec::new();
            for _ in 0..rng.usize(21) {
                let (el, name) = *rng.pick(&TAGS);
                let uidlike = matches!(name, "sop_class" | "sop_instance" | "ts" | "impl_class" | "private_creator");
                let action = gen_action(rng, uidlike);
                hist.push(format!("(0002,{:04X}) {:?}", el, action));
                let before = t.clone();
                let res = guarded(|| t.apply(AttributeOp::new(Tag(0x0002, el), action.clone())));
                l.eval();
                let an = action_name(&action);
                match res {
                    Err(p) => { l.violation(format!("apply|panic|{}", panic_loc(&p)), p, replay(&hist)); return; }
                    Ok(Err(_)) => {
                        l.class(format!("op|{}|{}|err", name, an));
                        if observe(&t) != observe(&before) || t.information_group_length != before.information_group_length {
                            l.violation(format!("apply|failed-op-changed-table|{}|{}", name, an), format!("operation failed but the table changed: {:?} -> {:?}", observe(&before), observe(&t)), replay(&hist));
                            return;
                        }
                    }
                    Ok(Ok(())) => {
                        l.class(format!("op|{}|{}|ok", name, an));
                        let allowed = apply_model(&cur, name, &action);
                        let now = observe(&t);
                        if !allowed.contains(&now) {
                            l.violation(format!("apply|model|{}|{}", name, an), format!("after {} on {} the table is {:?}; the documented semantics allow {:?}", an, name, now, allowed), replay(&hist));
                            return;
                        }
                        cur = now;
                    }
                }
                if let Err((k, d)) = check_table(&t) {
                    l.violation(format!("after-op|{}|{}|{}", k, name, an), d, replay(&hist));
                    return;
                }
            }
            if l.want_sample() && idx % 499 == 0 {
                l.sample(json!({"case": idx, "initial": format!("{:?}", m), "history": hist}));
            }
        },
    );
    let mut o = Outcome::new(local, "random file meta tables (odd/even UID, AE and SH strings, each optional field present or not, private information of odd/even length) and histories of 0-20 attribute operations (all 17 action kinds on supported, unsupported and read-only meta tags); after construction and after every operation: group length field == written group length == bytes following the group length element (own element walk), elements even and ordered, from_reader(DICM+group) == table, failed operations leave the table unchanged, successful ones match the documented semantics");
    o.min_evaluations = 5000;
    o.min_classes = 100;
    o
}

fn run_files(cfg: &Cfg) -> Outcome {
    let n = cfg.n(1_500, 40_000);
    let dir = format!("{}/files", cfg.out);
    std::fs::create_dir_all(&dir).ok();
    let uids = ["1.2.840.10008.1.2", "1.2.840.10008.1.2.1", "1.2.840.10008.1.2.2", "1.2.840.10008.1.2.1.99"];
    let local = run_parallel(
        cfg,
        91,
        RunLimits { cases: n, wall: Duration::from_secs(if cfg.thorough() { 600 } else { 60 }) },
        |l: &mut Local, rng: &mut Rng, idx: u64| {
            // one case in four is a *tiny* file (short UIDs, at most one small element): without its
            // preamble it is shorter than the 132 bytes a preamble + magic code would occupy
            let tiny = idx % 4 == 3;
            let mut ds = gen_dataset(rng, &DsOpts::default());
            if tiny { ds.truncate(rng.usize(2)); }
            let ti = rng.usize(4);
            let mut b = FileMetaTableBuilder::new()
                .transfer_syntax(uids[ti])
                .media_storage_sop_class_uid(if tiny { format!("1.{}", rng.usize(99)) } else { uid(rng) })
                .media_storage_sop_instance_uid(if tiny { format!("2.{}", rng.usize(999)) } else { uid(rng) });
            if tiny { b = b.implementation_class_uid("1.2"); }
            if rng.bool() { b = b.implementation_version_name(text(rng, 16)); }
            if rng.bool() { b = b.source_application_entity_title(text(rng, 16)); }
            let replay = json!({"seed": cfg.seed, "stream": 91, "case": idx, "leg": "files", "dataset": ds_json(&ds)});
            let Ok(fobj) = to_object(&ds).with_meta(b) else { return };
            let mut file = Vec::new();
            if let Err(e) = fobj.write_all(&mut file) {
                l.violation("file|write-error", err_chain(&e), replay);
                return;
            }
            let path = format!("{}/c{}.dcm", dir, idx);
            if fobj.write_to_file(&path).is_err() { return; }
            let on_disk = std::fs::read(&path).unwrap_or_default();
            l.eval();
            if on_disk != file {
                l.violation("file|write_to_file-vs-write_all", format!("write_to_file produced {} bytes, write_all {}", on_disk.len(), file.len()), replay.clone());
            }
            let stripped = &file[128..];
            l.class(format!("file|ts{}|n{}|stripped-len{}", ti, ds.len().min(10), if stripped.len() < 132 { "<132" } else { ">=132" }));
            // the same file without preamble, on disk (read by path)
            let path_np = format!("{}/c{}-np.dcm", dir, idx);
            if std::fs::write(&path_np, stripped).is_err() { return; }
            let reads: Vec<(&str, Result<dicom_object::DefaultDicomObject, String>)> = vec![
                ("open_file", dicom_object::open_file(&path).map_err(|e| err_chain(&e))),
                ("from_reader", dicom_object::from_reader(&file[..]).map_err(|e| err_chain(&e))),
                ("open_file/no-preamble", dicom_object::open_file(&path_np).map_err(|e| err_chain(&e))),
                ("options-auto/open_file/no-preamble", OpenFileOptions::new().read_preamble(ReadPreamble::Auto).open_file(&path_np).map_err(|e| err_chain(&e))),
                ("options-never/open_file/no-preamble", OpenFileOptions::new().read_preamble(ReadPreamble::Never).open_file(&path_np).map_err(|e| err_chain(&e))),
                ("options-always/open_file/preamble", OpenFileOptions::new().read_preamble(ReadPreamble::Always).open_file(&path).map_err(|e| err_chain(&e))),
                ("from_reader/no-preamble", dicom_object::from_reader(stripped).map_err(|e| err_chain(&e))),
                ("options-always/preamble", OpenFileOptions::new().read_preamble(ReadPreamble::Always).from_reader(&file[..]).map_err(|e| err_chain(&e))),
                ("options-never/no-preamble", OpenFileOptions::new().read_preamble(ReadPreamble::Never).from_reader(stripped).map_err(|e| err_chain(&e))),
                ("options-auto/no-preamble", OpenFileOptions::new().read_preamble(ReadPreamble::Auto).from_reader(stripped).map_err(|e| err_chain(&e))),
            ];
            let _ = std::fs::remove_file(&path);
            let _ = std::fs::remove_file(&path_np);
            let reference = match &reads[1].1 {
                Ok(o) => o,
                Err(e) => { l.violation("file|from_reader|error", e.clone(), replay); return; }
            };
            if reference.meta() != fobj.meta() {
                l.violation("file|meta-differs-from-written", format!("{:?} vs {:?}", observe(reference.meta()), observe(fobj.meta())), replay.clone());
            }
            for (name, r) in &reads {
                l.eval();
                match r {
                    Err(e) => l.violation(format!("file|{}|error", name), e.clone(), replay.clone()),
                    Ok(o) => {
                        if o.meta() != reference.meta() {
                            l.violation(format!("file|{}|meta-differs", name), format!("{:?} vs {:?}", observe(o.meta()), observe(reference.meta())), replay.clone());
                        } else if let Err(d) = same_object(o, reference, "") {
                            l.violation(format!("file|{}|dataset-differs", name), d, replay.clone());
                        }
                    }
                }
            }
        },
    );
    let _ = std::fs::remove_dir_all(&dir);
    let mut o = Outcome::new(local, "G-DS objects with random meta tables written with write_all / write_to_file in 4 transfer syntaxes; read back by path and from a byte source, with and without the 128-byte preamble (default, Always, Never, Auto preamble options; every fourth file is tiny: shorter than 132 bytes without its preamble); all readings must yield the same meta table and data set");
    o.min_evaluations = 1000;
    o.min_classes = 10;
    o
}
