//! C18 — encapsulated pixel data: offset table, even fragments, total length, frame extraction.
//!
//! Three legs (distinct PRNG streams):
//!   181 helpers     `encapsulate`, `encapsulate_single_frame`, `Fragments::new` + `From<Vec<Fragments>>`
//!   182 transcoding G-IMG native images → every registered transfer syntax that has a pixel encoder
//!   183 hand-built  valid fragment sequences with several fragments per frame and a correct
//!                   offset table → `frame_pixel_data` only
//! In-memory oracle (this file): fragment lengths even; BOT has one entry per frame and
//! BOT[i] = Σ_{j<i} Σ_{fragments of frame j} (8 + length) (so BOT[0] = 0); (7FE0,0003), when
//! present, = Σ fragment lengths; `frame_pixel_data(i)` = concatenation of frame i's fragments;
//! Number of Frames = frames; for the helpers the concatenated fragments of a frame = the frame
//! bytes followed by zero padding only.
//! File oracle (oracles/encaps_check.py via O-PARSE): every object is also written with
//! `write_all`; the harness stores the bytes plus what it knows by construction (frames, fragments
//! per frame) and the Python side recomputes the BOT from the *byte offsets of the item tags in
//! the file*, the fragment parity and the total length from the file alone.

use crate::gen::img::*;
use crate::props::c19::registry_encoders;
use crate::report::*;
use crate::rng::Rng;
use dicom_core::value::{fragments::Fragments, PixelFragmentSequence, Value as DValue};
use dicom_core::{DataElement, Length, PrimitiveValue, Tag, VR};
use dicom_encoding::adapters::PixelDataObject;
use dicom_encoding::transfer_syntax::TransferSyntaxIndex;
use dicom_object::{FileDicomObject, InMemDicomObject};
use dicom_pixeldata::encapsulation::{encapsulate, encapsulate_single_frame};
use dicom_pixeldata::Transcode;
use dicom_transfer_syntax_registry::TransferSyntaxRegistry;
use serde_json::{json, Value};
use std::io::Write;
use std::sync::Mutex;
use std::time::Duration;

/// Short names for the encoder transfer syntaxes (keys must not depend on registry wording).
pub fn short_ts_name(uid: &str) -> String {
    match uid {
        "1.2.840.10008.1.2.1.98" => "EncapsulatedUncompressed".into(),
        "1.2.840.10008.1.2.8.1" => "DeflatedImageFrame".into(),
        "1.2.840.10008.1.2.4.50" => "JPEGBaseline".into(),
        "1.2.840.10008.1.2.4.51" => "JPEGExtended".into(),
        "1.2.840.10008.1.2.4.57" => "JPEGLossless".into(),
        "1.2.840.10008.1.2.4.70" => "JPEGLosslessSV1".into(),
        "1.2.840.10008.1.2.4.80" => "JPEGLSLossless".into(),
        "1.2.840.10008.1.2.4.81" => "JPEGLSNearLossless".into(),
        "1.2.840.10008.1.2.4.110" => "JPEGXLLossless".into(),
        "1.2.840.10008.1.2.4.111" => "JPEGXLRecompression".into(),
        "1.2.840.10008.1.2.4.112" => "JPEGXL".into(),
        other => other.to_string(),
    }
}

struct Sink {
    bin: std::fs::File,
    idx: std::fs::File,
    off: u64,
    records: u64,
    cap_bytes: u64,
    skipped: u64,
}

/// What the harness knows about an encapsulated object by construction.
struct Known<'a> {
    origin: &'a str,
    frames: usize,
    /// number of fragments of every frame, in order
    frags_per_frame: Vec<usize>,
    /// helpers: the input frames (concatenated fragments must be frame + zero padding)
    helper_frames: Option<&'a [Vec<u8>]>,
}

fn pixel_seq(obj: &FileDicomObject<InMemDicomObject>) -> Option<(Vec<u32>, Vec<Vec<u8>>)> {
    match obj.get(Tag(0x7FE0, 0x0010))?.value() {
        DValue::PixelSequence(s) => Some((s.offset_table().to_vec(), s.fragments().iter().map(|f| f.to_vec()).collect())),
        _ => None,
    }
}

/// In-memory oracle + file record. Returns nothing; findings go to `l`.
fn check_object(l: &mut Local, sink: &Mutex<Sink>, obj: &FileDicomObject<InMemDicomObject>, k: &Known, replay: &dyn Fn() -> Value) {
    let origin = k.origin;
    let (bot, frags) = match pixel_seq(obj) {
        Some(x) => x,
        None => {
            l.eval();
            l.violation(format!("C18|mem|{}|not-encapsulated", origin), "Pixel Data is not a fragment sequence after encapsulation".to_string(), replay());
            return;
        }
    };
    let lens: Vec<usize> = frags.iter().map(|f| f.len()).collect();
    // fragments per frame known by construction; for transcoders: one fragment per frame is the
    // documented contract of encode_frame — if the count differs the frame boundaries are unknown
    let total_known: usize = k.frags_per_frame.iter().sum();
    let boundaries_known = total_known == frags.len();
    if !boundaries_known {
        l.note(format!("{}: {} fragments for {} frames — frame boundaries unknown, BOT/frame checks skipped for those objects", origin, frags.len(), k.frames));
        l.count("objects_with_unknown_frame_boundaries", 1);
    }
    // 1. even fragments
    l.eval();
    if let Some((i, n)) = lens.iter().enumerate().find(|(_, n)| *n % 2 == 1) {
        let mut r = replay();
        r["fragment_lengths"] = json!(lens);
        l.violation(
            format!("C18|mem|{}|odd-fragment", origin),
            format!("fragment {} has odd length {} (fragment lengths {:?})", i, n, &lens[..lens.len().min(16)]),
            r,
        );
    }
    // 2. offset table
    if boundaries_known {
        l.eval();
        let mut expected: Vec<u32> = Vec::new();
        let mut off = 0u32;
        let mut fi = 0usize;
        for n in &k.frags_per_frame {
            expected.push(off);
            for _ in 0..*n {
                off += 8 + lens[fi] as u32;
                fi += 1;
            }
        }
        if bot != expected {
            // label the known shape: entry i = len_i + 8·(i+1), not cumulative
            let noncum = k.frags_per_frame.iter().all(|n| *n == 1) && bot.len() == lens.len() && bot.iter().enumerate().all(|(i, b)| *b as usize == lens[i] + 8 * (i + 1));
            let d = if noncum {
                "entry=len+8(i+1)"
            } else if bot.len() != expected.len() {
                "count"
            } else if bot.first() != Some(&0) {
                "first-not-0"
            } else {
                "offsets"
            };
            let o = if origin.starts_with("transcode:") { "transcode" } else { origin };
            l.count(&format!("bot_wrong|mem|{}", origin), 1);
            let mut r = replay();
            r["fragment_lengths"] = json!(lens);
            r["offset_table_observed"] = json!(bot);
            r["offset_table_expected"] = json!(expected);
            l.violation(
                format!("C18|mem|{}|bot|{}", o, d),
                format!("{}: basic offset table {:?}, expected {:?} for fragment lengths {:?}", origin, &bot[..bot.len().min(8)], &expected[..expected.len().min(8)], &lens[..lens.len().min(8)]),
                r,
            );
        }
    }
    // 3. Encapsulated Pixel Data Value Total Length
    if let Some(e) = obj.get(Tag(0x7FE0, 0x0003)) {
        l.eval();
        l.count("objects_with_total_length_attribute", 1);
        let v: Option<u64> = e.to_int::<u64>().ok();
        let sum: u64 = lens.iter().map(|n| *n as u64).sum();
        if v != Some(sum) {
            let d = if v == lens.last().map(|n| *n as u64) && lens.len() > 1 { "last-fragment-length" } else { "mismatch" };
            let mut r = replay();
            r["fragment_lengths"] = json!(lens);
            r["total_length_observed"] = json!(v);
            r["total_length_expected"] = json!(sum);
            l.violation(
                format!("C18|mem|{}|total-length|{}", origin, d),
                format!("{}: (7FE0,0003) = {:?}, fragments total {} (lengths {:?})", origin, v, sum, &lens[..lens.len().min(8)]),
                r,
            );
        }
    }
    // 4. Number of Frames
    l.eval();
    let nf: Option<u32> = obj.get(Tag(0x0028, 0x0008)).and_then(|e| e.to_int::<u32>().ok());
    if nf.unwrap_or(1) as usize != k.frames {
        l.violation(format!("C18|mem|{}|number-of-frames", origin), format!("Number of Frames {:?} for {} frames", nf, k.frames), replay());
    }
    // 5. frame extraction
    if boundaries_known {
        let mut fi = 0usize;
        for (f, n) in k.frags_per_frame.iter().enumerate() {
            let want: Vec<u8> = frags[fi..fi + n].concat();
            fi += n;
            l.eval();
            match guarded(|| obj.frame_pixel_data(f as u32).map(|c| c.to_vec())) {
                Err(p) => {
                    l.violation(format!("C18|mem|{}|frame-extract|panic|{}", origin, panic_loc(&p)), format!("frame_pixel_data({}) panicked: {}", f, p), replay());
                }
                Ok(None) => {
                    let mut r = replay();
                    r["frame"] = json!(f);
                    r["fragment_lengths"] = json!(lens);
                    r["offset_table"] = json!(bot);
                    l.violation(format!("C18|mem|{}|frame-extract|none", origin), format!("frame_pixel_data({}) returned None ({} frames)", f, k.frames), r);
                }
                Ok(Some(got)) => {
                    if got != want {
                        let mut r = replay();
                        r["frame"] = json!(f);
                        r["fragment_lengths"] = json!(lens);
                        r["offset_table"] = json!(bot);
                        r["expected_len"] = json!(want.len());
                        r["observed_len"] = json!(got.len());
                        l.violation(
                            format!("C18|mem|{}|frame-extract|mismatch", origin),
                            format!("frame_pixel_data({}) returned {} bytes, the frame's fragments hold {} bytes (fragments per frame {:?})", f, got.len(), want.len(), &k.frags_per_frame[..k.frags_per_frame.len().min(8)]),
                            r,
                        );
                    }
                }
            }
            // helpers: content = frame bytes + zero padding
            if let Some(hf) = k.helper_frames {
                l.eval();
                let src = &hf[f];
                let ok = want.len() >= src.len() && want[..src.len()] == src[..] && want[src.len()..].iter().all(|b| *b == 0);
                if !ok {
                    let mut r = replay();
                    r["frame"] = json!(f);
                    l.violation(format!("C18|mem|{}|content", origin), format!("fragments of frame {} are not the frame bytes followed by zero padding", f), r);
                }
            }
        }
    }
    // 6. file record for the Python oracle
    match guarded(|| write_file(obj)) {
        Ok(Ok(bytes)) => {
            let mut s = sink.lock().unwrap();
            if s.off + bytes.len() as u64 > s.cap_bytes {
                s.skipped += 1;
                return;
            }
            let rec = json!({
                "id": s.records, "off": s.off, "len": bytes.len(), "origin": origin, "frames": k.frames,
                "frags_per_frame": if boundaries_known { json!(k.frags_per_frame) } else { Value::Null },
                "mem_fragment_lengths": lens, "replay": replay(),
            });
            s.bin.write_all(&bytes).ok();
            writeln!(s.idx, "{}", rec).ok();
            s.off += bytes.len() as u64;
            s.records += 1;
        }
        Ok(Err(e)) => {
            l.eval();
            let mut r = replay();
            r["error"] = json!(e.chars().take(300).collect::<String>());
            l.violation(format!("C18|file|{}|write-error", origin), format!("writing the encapsulated object failed: {}", e.chars().take(200).collect::<String>()), r);
        }
        Err(p) => {
            l.eval();
            l.violation(format!("C18|file|{}|write-panic|{}", origin, panic_loc(&p)), format!("writing the encapsulated object panicked: {}", p), replay());
        }
    }
}

/// The helpers return a value typed over `EmptyObject`; re-type it for an in-memory object.
fn retype(v: dicom_core::value::Value) -> Option<DValue<InMemDicomObject>> {
    match v {
        DValue::PixelSequence(s) => Some(DValue::PixelSequence(s)),
        _ => None,
    }
}

/// Minimal object around an encapsulated Pixel Data value (helpers, hand-built sequences).
/// `with_nof = false` leaves Number of Frames out (only for one frame: absent means 1)
fn generic_object(value: DValue<InMemDicomObject>, frames: usize, with_nof: bool) -> FileDicomObject<InMemDicomObject> {
    let mut o = InMemDicomObject::new_empty();
    o.put(DataElement::new(Tag(0x0008, 0x0016), VR::UI, PrimitiveValue::from("1.2.840.10008.5.1.4.1.1.7")));
    o.put(DataElement::new(Tag(0x0008, 0x0018), VR::UI, PrimitiveValue::from("1.2.826.0.1.3680043.8.498.2")));
    if with_nof || frames != 1 {
        o.put(DataElement::new(Tag(0x0028, 0x0008), VR::IS, PrimitiveValue::from(frames.to_string())));
    }
    o.put(DataElement::new_with_len(Tag(0x7FE0, 0x0010), VR::OB, Length::UNDEFINED, value));
    wrap(o, TS_JPEG_BASELINE)
}

fn frame_sizes(rng: &mut Rng, frames: usize) -> Vec<Vec<u8>> {
    (0..frames)
        .map(|_| {
            let n = match rng.usize(6) {
                0 => 1,
                1 => 2,
                2 => rng.urange(1, 16),
                3 => rng.urange(1, 600) | 1,
                4 => rng.urange(2, 600) & !1,
                _ => rng.urange(1, 600),
            };
            // non-zero content so that padding is distinguishable from data
            (0..n).map(|_| 1 + (rng.below(255) as u8)).collect()
        })
        .collect()
}

fn helper_leg(cfg: &Cfg, sink: &Mutex<Sink>) -> Local {
    let n = cfg.n(5_000, 300_000);
    run_parallel(
        cfg,
        181,
        RunLimits { cases: n, wall: Duration::from_secs(if cfg.thorough() { 400 } else { 40 }) },
        |l: &mut Local, rng: &mut Rng, idx: u64| {
            let which = rng.usize(3);
            let frames = if which == 1 { 1 } else { rng.urange(1, 16) };
            let data = frame_sizes(rng, frames);
            let sizes: Vec<usize> = data.iter().map(|d| d.len()).collect();
            match which {
                0 => {
                    // encapsulate(frames): one fragment per frame
                    l.class(format!("encapsulate|f{}|{}", frames.min(9), if sizes.iter().any(|s| s % 2 == 1) { "odd" } else { "even" }));
                    let replay = || json!({"seed": cfg.seed, "stream": 181, "case": idx, "helper": "encapsulate", "frame_sizes": sizes});
                    match guarded(|| encapsulate(data.clone())) {
                        Err(p) => {
                            l.eval();
                            l.violation(format!("C18|mem|helper:encapsulate|panic|{}", panic_loc(&p)), format!("encapsulate panicked: {}", p), replay());
                        }
                        Ok(v) => {
                            let v = match retype(v) {
                                Some(v) => v,
                                None => {
                                    l.eval();
                                    l.violation("C18|mem|helper:encapsulate|not-encapsulated".to_string(), "encapsulate did not return a pixel sequence".to_string(), replay());
                                    return;
                                }
                            };
                            let obj = generic_object(v, frames, idx % 2 == 0);
                            let k = Known { origin: "helper:encapsulate", frames, frags_per_frame: vec![1; frames], helper_frames: Some(&data) };
                            check_object(l, sink, &obj, &k, &replay);
                        }
                    }
                }
                1 => {
                    // encapsulate_single_frame(frame, fragment_size)
                    let len = sizes[0];
                    let fs: u32 = match rng.usize(7) {
                        0 => 0,
                        1 => 1,
                        2 => 2,
                        3 => (rng.urange(1, len.max(2)) | 1) as u32,
                        4 => (rng.urange(2, len.max(2)) & !1) as u32,
                        5 => len as u32,
                        _ => (len + rng.urange(0, 40)) as u32,
                    };
                    let fs_eff = if fs == 0 { len as u32 } else { fs };
                    let fs_even = (fs_eff + fs_eff % 2) as usize;
                    let nfrag = len.div_ceil(fs_even);
                    l.class(format!("single_frame|fs:{}|len:{}|n{}", if fs == 0 { "0" } else if fs % 2 == 1 { "odd" } else { "even" }, if len % 2 == 1 { "odd" } else { "even" }, nfrag.min(5)));
                    let replay = || json!({"seed": cfg.seed, "stream": 181, "case": idx, "helper": "encapsulate_single_frame", "frame_size": len, "fragment_size": fs});
                    match guarded(|| encapsulate_single_frame(data[0].clone(), fs)) {
                        Err(p) => {
                            l.eval();
                            l.violation(format!("C18|mem|helper:encapsulate_single_frame|panic|{}", panic_loc(&p)), format!("encapsulate_single_frame({} bytes, {}) panicked: {}", len, fs, p), replay());
                        }
                        Ok(v) => {
                            // all fragments belong to the one frame, however many there are
                            let nf = match &v {
                                DValue::PixelSequence(s) => s.fragments().len(),
                                _ => 0,
                            };
                            let v = match retype(v) {
                                Some(v) => v,
                                None => {
                                    l.eval();
                                    l.violation("C18|mem|helper:encapsulate_single_frame|not-encapsulated".to_string(), "encapsulate_single_frame did not return a pixel sequence".to_string(), replay());
                                    return;
                                }
                            };
                            let obj = generic_object(v, 1, idx % 2 == 0);
                            let k = Known { origin: "helper:encapsulate_single_frame", frames: 1, frags_per_frame: vec![nf], helper_frames: Some(&data) };
                            check_object(l, sink, &obj, &k, &replay);
                        }
                    }
                }
                _ => {
                    // Vec<Fragments> → PixelFragmentSequence, fragment size per the documented rule:
                    // several frames ⇒ one fragment each (fragment_size 0 or ≥ frame length)
                    let fss: Vec<u32> = sizes
                        .iter()
                        .map(|len| {
                            if frames == 1 {
                                *rng.pick(&[0u32, 1, 2, 3, 4, 7, 64, 1000])
                            } else if rng.bool() {
                                0
                            } else {
                                (*len + rng.urange(0, 9)) as u32
                            }
                        })
                        .collect();
                    l.class(format!("fragments_new|f{}|{}", frames.min(9), if sizes.iter().any(|s| s % 2 == 1) { "odd" } else { "even" }));
                    let replay = || json!({"seed": cfg.seed, "stream": 181, "case": idx, "helper": "Fragments::new + into()", "frame_sizes": sizes, "fragment_sizes": fss});
                    let r = guarded(|| {
                        let v: Vec<Fragments> = data.iter().zip(&fss).map(|(d, fs)| Fragments::new(d.clone(), *fs)).collect();
                        let lens_decl: Vec<u32> = v.iter().map(|f| f.len()).collect();
                        let seq: PixelFragmentSequence<Vec<u8>> = v.into();
                        (seq, lens_decl)
                    });
                    match r {
                        Err(p) => {
                            l.eval();
                            l.violation(format!("C18|mem|helper:Fragments|panic|{}", panic_loc(&p)), format!("Fragments::new/into panicked: {}", p), replay());
                        }
                        Ok((seq, lens_decl)) => {
                            let nfrag = seq.fragments().len();
                            // Fragments::len() = Σ (8 + fragment length) of that frame
                            if frames == nfrag {
                                l.eval();
                                let real: Vec<u32> = seq.fragments().iter().map(|f| f.len() as u32 + 8).collect();
                                if real != lens_decl {
                                    l.violation("C18|mem|helper:Fragments|len".to_string(), format!("Fragments::len() {:?} but fragments occupy {:?}", lens_decl, real), replay());
                                }
                            }
                            let fpf = if frames == 1 { vec![nfrag] } else { vec![1; frames] };
                            let obj = generic_object(DValue::PixelSequence(seq), frames, idx % 2 == 0);
                            let k = Known { origin: "helper:Fragments", frames, frags_per_frame: fpf, helper_frames: Some(&data) };
                            check_object(l, sink, &obj, &k, &replay);
                        }
                    }
                }
            }
        },
    )
}

fn transcode_leg(cfg: &Cfg, sink: &Mutex<Sink>, encoders: &[(String, String)]) -> Local {
    let n = cfg.n(1_200, 120_000);
    run_parallel(
        cfg,
        182,
        RunLimits { cases: n, wall: Duration::from_secs(if cfg.thorough() { 600 } else { 45 }) },
        |l: &mut Local, rng: &mut Rng, idx: u64| {
            let mut o = ImgOpts::no_1bit();
            o.garbage_high_bits = rng.chance(1, 4);
            // JPEG baseline needs bits stored 8 (8-bit) or 9..16 (16-bit): keep full depth often
            o.allow_partial_bits = rng.chance(1, 3);
            if idx < 48 {
                o.max_dim = 3;
                o.max_frames = 3;
                o.bigger_one_in = 0;
            }
            let img = gen_image(rng, &o);
            let (src_uid, _src_name) = *rng.pick(crate::props::c19::NATIVE);
            l.count(&format!("images_a{}_spp{}", img.bits_allocated, img.spp), 1);
            l.count(&format!("images_frames_{}", img.frames), 1);
            if l.want_sample() && idx % 199 == 0 {
                l.sample(json!({"case": idx, "leg": "transcode", "image": img.describe()}));
            }
            for (uid, _) in encoders {
                let name = short_ts_name(uid);
                // deflate set-up is slow (~5 ms / frame): thin it out
                if name == "DeflatedImageFrame" && idx >= 48 && !rng.chance(1, 2) {
                    continue;
                }
                let origin = format!("transcode:{}", name);
                let repr = if img.bits_allocated == 16 {
                    if src_uid == TS_EXPLICIT_BE || rng.bool() { PxRepr::OwWords } else { PxRepr::OwBytes }
                } else {
                    PxRepr::ObBytes
                };
                let (mut obj, _) = img.to_file_object_repr(src_uid, repr);
                let ts = TransferSyntaxRegistry.get(uid).expect("registered");
                let mut eo = dicom_encoding::adapters::EncodeOptions::new();
                if rng.chance(1, 4) {
                    eo.quality = Some(*rng.pick(&[1u8, 50, 90, 100]));
                }
                if rng.chance(1, 4) {
                    eo.effort = Some(*rng.pick(&[0u8, 1, 50, 100]));
                }
                let replay = || json!({"seed": cfg.seed, "stream": 182, "case": idx, "target": name, "target_uid": uid, "image": img.describe()});
                match guarded(|| obj.transcode_with_options(ts, eo)) {
                    Err(p) => {
                        l.eval();
                        l.violation(format!("C18|mem|{}|transcode-panic|{}", origin, panic_loc(&p)), format!("transcode to {} panicked: {}", name, p), replay());
                        continue;
                    }
                    Ok(Err(e)) => {
                        // the encoder refuses this image (e.g. JPEG baseline with bits stored < 8):
                        // nothing was encapsulated, nothing to check
                        l.count(&format!("transcode_refused|{}", name), 1);
                        let _ = e;
                        continue;
                    }
                    Ok(Ok(())) => {}
                }
                l.count(&format!("transcoded|{}", name), 1);
                l.class(format!("{}|{}", img.class(), name));
                let frames = img.frames as usize;
                let k = Known { origin: &origin, frames, frags_per_frame: vec![1; frames], helper_frames: None };
                check_object(l, sink, &obj, &k, &replay);
            }
        },
    )
}

fn handbuilt_leg(cfg: &Cfg, sink: &Mutex<Sink>) -> Local {
    let n = cfg.n(5_000, 600_000);
    run_parallel(
        cfg,
        183,
        RunLimits { cases: n, wall: Duration::from_secs(if cfg.thorough() { 300 } else { 30 }) },
        |l: &mut Local, rng: &mut Rng, idx: u64| {
            let frames = rng.urange(1, 16);
            let mut fpf: Vec<usize> = Vec::new();
            let mut frags: Vec<Vec<u8>> = Vec::new();
            let multi = rng.chance(3, 4);
            for _ in 0..frames {
                let k = if multi { rng.urange(1, 4) } else { 1 };
                fpf.push(k);
                for _ in 0..k {
                    let len = match rng.usize(5) {
                        0 => 0,
                        1 => 2,
                        _ => rng.urange(1, 150) * 2,
                    };
                    frags.push((0..len).map(|_| rng.below(256) as u8).collect());
                }
            }
            let mut bot = Vec::new();
            let mut off = 0u32;
            let mut fi = 0;
            for k in &fpf {
                bot.push(off);
                for _ in 0..*k {
                    off += 8 + frags[fi].len() as u32;
                    fi += 1;
                }
            }
            // a single frame may come with an empty offset table (allowed by PS3.5 A.4)
            if frames == 1 && rng.bool() {
                bot.clear();
            }
            // one fragment per frame may come with an empty table as well
            if !multi && rng.chance(1, 3) {
                bot.clear();
            }
            let empty_bot = bot.is_empty();
            l.class(format!("handbuilt|f{}|{}|{}|nof{}", frames.min(9), if multi { "multi" } else { "1:1" }, if empty_bot { "emptybot" } else { "bot" }, (idx % 2 == 0 || frames != 1) as u8));
            let lens: Vec<usize> = frags.iter().map(|f| f.len()).collect();
            let replay = || json!({"seed": cfg.seed, "stream": 183, "case": idx, "hand_built": true, "fragments_per_frame": fpf, "fragment_lengths": lens, "offset_table": bot});
            let obj = generic_object(DValue::PixelSequence(PixelFragmentSequence::new(bot.clone(), frags.clone())), frames, idx % 2 == 0);
            // only frame extraction is under test here (the object was not encapsulated by dicom-rs)
            let mut fi = 0usize;
            for (f, k) in fpf.iter().enumerate() {
                let want: Vec<u8> = frags[fi..fi + k].concat();
                fi += k;
                l.eval();
                match guarded(|| obj.frame_pixel_data(f as u32).map(|c| c.to_vec())) {
                    Err(p) => l.violation(format!("C18|mem|handbuilt|frame-extract|panic|{}", panic_loc(&p)), format!("frame_pixel_data({}) panicked: {}", f, p), replay()),
                    Ok(None) => l.violation("C18|mem|handbuilt|frame-extract|none".to_string(), format!("frame_pixel_data({}) returned None for a valid {}-frame object", f, frames), replay()),
                    Ok(Some(got)) => {
                        if got != want {
                            let mut r = replay();
                            r["frame"] = json!(f);
                            r["expected_len"] = json!(want.len());
                            r["observed_len"] = json!(got.len());
                            l.violation(
                                "C18|mem|handbuilt|frame-extract|mismatch".to_string(),
                                format!("frame_pixel_data({}) returned {} bytes, the frame's fragments hold {} bytes (fragments per frame {:?}, lengths {:?}, BOT {:?})", f, got.len(), want.len(), &fpf[..fpf.len().min(6)], &lens[..lens.len().min(10)], &bot[..bot.len().min(6)]),
                                r,
                            );
                        }
                    }
                }
            }
            let _ = sink;
        },
    )
}

pub fn run(cfg: &Cfg) -> Outcome {
    let encoders = registry_encoders();
    let open = |name: &str| std::fs::File::create(format!("{}/{}", cfg.out, name)).expect("create sink file");
    let sink = Mutex::new(Sink {
        bin: open("c18_files.bin"),
        idx: open("c18_files.jsonl"),
        off: 0,
        records: 0,
        cap_bytes: if cfg.thorough() { 600 << 20 } else { 200 << 20 },
        skipped: 0,
    });
    let mut base = Local::new();
    base.note(format!(
        "registered transfer syntaxes with a pixel encoder in this build: {}; not built in this sandbox: the JPEG-LS encoders (feature charls, needs the CharLS C++ library); JPEG 2000 / HTJ2K / RLE / JPEG lossless have no encoder in dicom-rs",
        encoders.iter().map(|(u, n)| format!("{} ({})", n, u)).collect::<Vec<_>>().join(", ")
    ));
    let leg = cfg.opt("--leg");
    let want = |name: &str| leg.as_deref().map(|l| l == name).unwrap_or(true);
    // hand-made minimal witnesses first (DESIGN §4 row 5)
    if cfg.only_case.is_none() {
        let mk = |frames: u32, rows: u16, cols: u16| GImg {
            rows,
            cols,
            frames,
            spp: 1,
            bits_allocated: 8,
            bits_stored: 8,
            signed: false,
            photometric: "MONOCHROME2",
            fill: Fill::Ramp,
            samples: (0..frames as usize * rows as usize * cols as usize).map(|i| (i as u16 * 7 + 1) & 0xFF).collect(),
            explicit_number_of_frames: true,
        };
        for (ci, img) in [mk(3, 2, 2), mk(3, 2, 3), mk(2, 1, 3), mk(1, 2, 2)].iter().enumerate() {
            for (uid, _) in &encoders {
                let name = short_ts_name(uid);
                let origin = format!("transcode:{}", name);
                let mut obj = img.to_file_object(TS_EXPLICIT_LE, false);
                let ts = TransferSyntaxRegistry.get(uid).expect("registered");
                if let Ok(Ok(())) = guarded(|| obj.transcode(ts)) {
                    let replay = || json!({"seed": cfg.seed, "stream": 180, "case": ci, "hand_made": true, "target": name, "image": img.describe()});
                    let frames = img.frames as usize;
                    let k = Known { origin: &origin, frames, frags_per_frame: vec![1; frames], helper_frames: None };
                    check_object(&mut base, &sink, &obj, &k, &replay);
                }
            }
        }
    }
    if want("helpers") {
        base.merge(helper_leg(cfg, &sink));
    }
    if want("transcode") {
        base.merge(transcode_leg(cfg, &sink, &encoders));
    }
    if want("handbuilt") {
        base.merge(handbuilt_leg(cfg, &sink));
    }
    let s = sink.into_inner().unwrap();
    base.count("file_records_written", s.records);
    if s.skipped > 0 {
        base.count("file_records_skipped_by_size_cap", s.skipped);
    }
    let mut o = Outcome::new(
        base,
        "helpers (encapsulate / encapsulate_single_frame / Fragments::new+into; 1–16 frames, frame sizes 1–600 odd and even, fragment sizes {0,1,2,odd,even,≥len}) + G-IMG native images transcoded into every registered transfer syntax with a pixel encoder + hand-built multi-fragment sequences: even fragments, BOT[i] = byte offset of frame i's first item from the first item after the table, (7FE0,0003) = Σ fragment lengths, Number of Frames, frame_pixel_data(i) = frame i's fragment bytes — on the in-memory object and (Python, O-PARSE) on the written file bytes; class = (helper, frames, parity, fragment-size class) / (image class, target TS) / (hand-built shape)",
    );
    o.min_evaluations = 5000;
    o.min_classes = 60;
    o
}
