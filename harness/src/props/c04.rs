//! C04 — everything written is structurally valid PS3.5 (judged by the independent Python
//! parser on the exported streams) and every byte count reported by the encoding layer equals
//! the number of bytes actually written.

use crate::gen::ds::{gen_dataset, gen_value, DsOpts, ALL_VRS};
use crate::gen::tree::*;
use crate::props::c01::{four_ts, undefine_foreign_sq, write_with, Api};
use crate::refenc::{self, LenMode, Ts};
use crate::report::*;
use crate::rng::Rng;
use dicom_core::header::{DataElementHeader, Length};
use dicom_core::value::PrimitiveValue;
use dicom_core::{Tag, VR};
use dicom_encoding::encode::explicit_be::ExplicitVRBigEndianEncoder;
use dicom_encoding::encode::explicit_le::ExplicitVRLittleEndianEncoder;
use dicom_encoding::encode::implicit_le::ImplicitVRLittleEndianEncoder;
use dicom_encoding::encode::{Encode, EncodeTo, EncoderFor};
use dicom_encoding::text::SpecificCharacterSet;
use dicom_object::meta::FileMetaTableBuilder;
use dicom_object::InMemDicomObject;
use dicom_parser::stateful::encode::StatefulEncoder;
use serde_json::{json, Map, Value as J};
use std::cell::RefCell;
use std::io::Write;
use std::rc::Rc;
use std::sync::Mutex;
use std::time::Duration;

/// unpadded value lengths per element path, computed from the abstract tree with the harness'
/// own length function (typed IS/DS numbers are skipped: their text is chosen by the writer)
fn unpadded_map(ds: &[GElem], path: &str, out: &mut Map<String, J>, vrs: &mut Map<String, J>) {
    for e in ds {
        let p = format!("{}{:04X}{:04X}", path, e.tag.0, e.tag.1);
        match &e.val {
            GVal::Seq(s) => {
                for (i, it) in s.items.iter().enumerate() {
                    unpadded_map(&it.elems, &format!("{}[{}].", p, i), out, vrs);
                }
            }
            GVal::Pix { .. } => {}
            GVal::I32(_) if e.vr == VR::IS => {}
            GVal::F64(_) if e.vr == VR::DS => {}
            _ => {
                out.insert(p.clone(), json!(refenc::elem_value_bytes(e, false).len()));
                vrs.insert(p, json!(e.vr.to_string()));
            }
        }
    }
}

#[derive(Clone)]
struct CountW(Rc<RefCell<Vec<u8>>>);
impl Write for CountW {
    fn write(&mut self, b: &[u8]) -> std::io::Result<usize> {
        self.0.borrow_mut().extend_from_slice(b);
        Ok(b.len())
    }
    fn flush(&mut self) -> std::io::Result<()> {
        Ok(())
    }
}

fn prim_of_any_variant(rng: &mut Rng) -> (PrimitiveValue, &'static str) {
    let vr = *rng.pick(&ALL_VRS);
    let vr = if vr == VR::SQ { VR::LO } else { vr };
    let mut o = DsOpts::default();
    o.big = false;
    let g = gen_value(rng, vr, &o);
    let shape = g.shape();
    (g.to_primitive().unwrap_or(PrimitiveValue::Empty), shape)
}

fn stateful_seq<T>(l: &mut Local, rng: &mut Rng, idx: u64, cfg: &Cfg, tsname: &str)
where
    T: Default,
    EncoderFor<T, CountW>: EncodeTo<CountW>,
{
    let sink = CountW(Rc::new(RefCell::new(Vec::new())));
    let mut enc = StatefulEncoder::new(sink.clone(), EncoderFor::<T, CountW>::default(), SpecificCharacterSet::default());
    let steps = rng.urange(1, 12);
    let mut trace: Vec<String> = Vec::new();
    for _ in 0..steps {
        let op = rng.usize(8);
        let r: Result<(), String> = match op {
            0 => {
                let vr = *rng.pick(&ALL_VRS);
                let len = if refenc::short_form(vr) { rng.below(0xFFFF) as u32 } else { rng.next_u32() };
                trace.push(format!("header({},{})", vr, len));
                enc.encode_element_header(DataElementHeader::new(Tag(0x0009, 0x1001), vr, Length(len))).map_err(|e| format!("{:?}", e))
            }
            1 => { trace.push("item".into()); enc.encode_item_header(rng.next_u32()).map_err(|e| format!("{:?}", e)) }
            2 => { trace.push("item_delim".into()); enc.encode_item_delimiter().map_err(|e| format!("{:?}", e)) }
            3 => { trace.push("seq_delim".into()); enc.encode_sequence_delimiter().map_err(|e| format!("{:?}", e)) }
            4 => { let k = rng.usize(9); trace.push(format!("raw({})", k)); enc.write_raw_bytes(&rng.bytes(k)).map_err(|e| format!("{:?}", e)) }
            5 => { let k = rng.usize(9); trace.push(format!("bytes({})", k)); enc.write_bytes(&rng.bytes(k)).map_err(|e| format!("{:?}", e)) }
            6 => { let k = rng.usize(4); trace.push(format!("bot({})", k)); enc.encode_offset_table(&vec![7u32; k]).map_err(|e| format!("{:?}", e)) }
            _ => {
                let vr = *rng.pick(&ALL_VRS);
                let vr = if vr == VR::SQ { VR::SH } else { vr };
                let mut o = DsOpts::default();
                o.big = false;
                let g = gen_value(rng, vr, &o);
                trace.push(format!("element({},{},m{})", vr, g.shape(), g.multiplicity()));
                l.class(format!("stateful|element|{}|{}|{}", tsname, vr, g.shape()));
                let pv = g.to_primitive().unwrap();
                enc.encode_primitive_element(&DataElementHeader::new(Tag(0x0009, 0x1002), vr, Length(0)), &pv).map_err(|e| format!("{:?}", e))
            }
        };
        l.eval();
        let opname = trace.last().unwrap().split('(').next().unwrap().to_string();
        if let Err(e) = r {
            l.violation(format!("stateful|error|{}", opname), e.chars().take(200).collect::<String>(), json!({"case": idx, "seed": cfg.seed, "stream": 41, "trace": trace}));
            return;
        }
        let _ = enc.flush();
        let actual = sink.0.borrow().len() as u64;
        if enc.bytes_written() != actual {
            l.violation(
                format!("stateful|bytes_written|{}|{}", tsname, opname),
                format!("bytes_written()={} but {} bytes reached the writer after {:?}", enc.bytes_written(), actual, trace),
                json!({"case": idx, "seed": cfg.seed, "stream": 41, "trace": trace}),
            );
            return;
        }
    }
    l.class(format!("stateful|{}|steps{}", tsname, steps));
}

fn leg_counts(cfg: &Cfg) -> Local {
    let n = cfg.n(100_000, 3_000_000);
    run_parallel(
        cfg,
        41,
        RunLimits { cases: n, wall: Duration::from_secs(if cfg.thorough() { 600 } else { 60 }) },
        |l: &mut Local, rng: &mut Rng, idx: u64| {
            // (1) Encode::encode_primitive and encode_offset_table on the three encoders
            let (pv, shape) = prim_of_any_variant(rng);
            for ts in Ts::ALL {
                l.eval();
                let mut out = Vec::new();
                let r = guarded(|| match ts {
                    Ts::ImplicitLe => ImplicitVRLittleEndianEncoder::default().encode_primitive(&mut out, &pv),
                    Ts::ExplicitLe => ExplicitVRLittleEndianEncoder::default().encode_primitive(&mut out, &pv),
                    Ts::ExplicitBe => ExplicitVRBigEndianEncoder::default().encode_primitive(&mut out, &pv),
                });
                l.class(format!("encode_primitive|{}|{}", ts.name(), shape));
                match r {
                    Err(p) => l.violation(format!("encode_primitive|panic|{}", panic_loc(&p)), p, json!({"case": idx, "seed": cfg.seed, "stream": 41})),
                    Ok(Err(e)) => l.violation(format!("encode_primitive|error|{}", shape), format!("{:?}", e).chars().take(200).collect::<String>(), json!({"case": idx, "seed": cfg.seed, "stream": 41, "value": format!("{:?}", pv).chars().take(300).collect::<String>()})),
                    Ok(Ok(nrep)) => {
                        if nrep != out.len() {
                            l.violation(
                                format!("encode_primitive|count|{}|{}", ts.name(), shape),
                                format!("reported {} bytes but wrote {} for {:?}", nrep, out.len(), pv).chars().take(400).collect::<String>(),
                                json!({"case": idx, "seed": cfg.seed, "stream": 41, "written_hex": hex_short(&out, 128)}),
                            );
                        }
                    }
                }
                let table: Vec<u32> = (0..rng.usize(6)).map(|_| rng.next_u32()).collect();
                let mut out = Vec::new();
                let r = match ts {
                    Ts::ImplicitLe => ImplicitVRLittleEndianEncoder::default().encode_offset_table(&mut out, &table),
                    Ts::ExplicitLe => ExplicitVRLittleEndianEncoder::default().encode_offset_table(&mut out, &table),
                    Ts::ExplicitBe => ExplicitVRBigEndianEncoder::default().encode_offset_table(&mut out, &table),
                };
                l.eval();
                if r.as_ref().ok() != Some(&out.len()) || out.len() != 4 * table.len() {
                    l.violation(format!("encode_offset_table|count|{}", ts.name()), format!("reported {:?}, wrote {} for {} entries", r.ok(), out.len(), table.len()), json!({"case": idx, "seed": cfg.seed, "stream": 41}));
                }
            }
            // (2) StatefulEncoder::bytes_written after a random call sequence
            match rng.usize(3) {
                0 => stateful_seq::<ImplicitVRLittleEndianEncoder>(l, rng, idx, cfg, "ImplicitLE"),
                1 => stateful_seq::<ExplicitVRLittleEndianEncoder>(l, rng, idx, cfg, "ExplicitLE"),
                _ => stateful_seq::<ExplicitVRBigEndianEncoder>(l, rng, idx, cfg, "ExplicitBE"),
            }
        },
    )
}

fn leg_streams(cfg: &Cfg) -> Local {
    let tss = four_ts();
    let n = cfg.n(2_500, 40_000);
    let export = Mutex::new(std::io::BufWriter::new(std::fs::File::create(format!("{}/written.jsonl", cfg.out)).expect("export file")));
    let local = run_parallel(
        cfg,
        4,
        RunLimits { cases: n, wall: Duration::from_secs(if cfg.thorough() { 900 } else { 90 }) },
        |l: &mut Local, rng: &mut Rng, idx: u64| {
            let mut opts = DsOpts::default();
            opts.explicit_marks = true;
            opts.zero_frags = rng.chance(1, 4);
            if rng.chance(9, 10) {
                opts.big = false;
            }
            opts.nested_pixel = idx % 2 == 1;
            let ds = gen_dataset(rng, &opts);
            let obj = to_object(&ds);
            let mut unp = Map::new();
            let mut vrs = Map::new();
            unpadded_map(&ds, "", &mut unp, &mut vrs);
            let mut emit = |l: &mut Local, name: &str, api: &str, bytes: &[u8], file: bool, with_pad: bool| {
                l.eval();
                let mut rec = json!({
                    "id": format!("{}:{}:{}", idx, name, api),
                    "ts": name, "hex": hex(bytes), "file": file,
                    "key": format!("{}|{}", name, api),
                    "ctx": {"seed": cfg.seed, "stream": 4, "case": idx},
                });
                if with_pad {
                    rec["unpadded"] = J::Object(unp.clone());
                    rec["vrs"] = J::Object(vrs.clone());
                }
                let mut f = export.lock().unwrap();
                let _ = writeln!(f, "{}", rec);
            };
            for (ti, tc) in tss.iter().enumerate() {
                walk(&ds, 0, &mut |e, d| l.class(format!("{}|{}|{}|d{}", tc.name, e.vr, e.val.shape(), d.min(4))));
                for api in [Api::Default, Api::NoChange] {
                    match guarded(|| write_with(&obj, &tc.ts, api)) {
                        Ok(Ok(b)) => emit(l, tc.name, api.name(), &b, false, true),
                        Ok(Err(e)) => l.violation(format!("{}|{}|write-error", tc.name, api.name()), e.chars().take(200).collect::<String>(), json!({"seed": cfg.seed, "stream": 4, "case": idx})),
                        Err(p) => l.violation(format!("{}|{}|write-panic|{}", tc.name, api.name(), panic_loc(&p)), p, json!({"seed": cfg.seed, "stream": 4, "case": idx})),
                    }
                }
                // object carrying recorded explicit lengths
                let dsm = if tc.implicit { undefine_foreign_sq(&ds) } else { ds.clone() };
                let enc = refenc::encode(&dsm, tc.refts, LenMode::AsMarked);
                let plain = &tss[match tc.refts { Ts::ImplicitLe => 0, Ts::ExplicitLe => 1, Ts::ExplicitBe => 2 }].ts;
                if let Ok(Ok(obj2)) = guarded(|| InMemDicomObject::read_dataset_with_ts(&enc.bytes[..], plain)) {
                    for api in [Api::SetUndefined, Api::NoChange] {
                        if let Ok(Ok(b)) = guarded(|| write_with(&obj2, &tc.ts, api)) {
                            emit(l, tc.name, &format!("read-explicit/{}", api.name()), &b, false, true);
                        }
                    }
                }
                // complete file
                if idx % 3 == 0 {
                    let uid = ["1.2.840.10008.1.2", "1.2.840.10008.1.2.1", "1.2.840.10008.1.2.2", "1.2.840.10008.1.2.1.99"][ti];
                    let meta = FileMetaTableBuilder::new()
                        .transfer_syntax(uid)
                        .media_storage_sop_class_uid("1.2.840.10008.5.1.4.1.1.7")
                        .media_storage_sop_instance_uid(format!("1.2.3.{}", idx));
                    match guarded(|| {
                        let f = obj.clone().with_meta(meta).map_err(|e| format!("{:?}", e))?;
                        let mut out = Vec::new();
                        f.write_all(&mut out).map_err(|e| format!("{:?}", e))?;
                        Ok::<_, String>(out)
                    }) {
                        Ok(Ok(b)) => emit(l, tc.name, "file", &b, true, true),
                        Ok(Err(e)) => l.violation(format!("{}|file|write-error", tc.name), e.chars().take(200).collect::<String>(), json!({"seed": cfg.seed, "stream": 4, "case": idx})),
                        Err(p) => l.violation(format!("{}|file|write-panic|{}", tc.name, panic_loc(&p)), p, json!({"seed": cfg.seed, "stream": 4, "case": idx})),
                    }
                }
            }
            if l.want_sample() && idx % 211 == 0 {
                l.sample(json!({"case": idx, "dataset": ds_json(&ds)}));
            }
        },
    );
    export.lock().unwrap().flush().ok();
    local
}

pub fn run(cfg: &Cfg) -> Outcome {
    let leg = cfg.opt("--leg").unwrap_or_else(|| "streams".into());
    if leg == "counts" {
        let mut o = Outcome::new(leg_counts(cfg), "byte-count monitor: Encode::encode_primitive / encode_offset_table return values vs bytes appended (3 encoders × all primitive variants), and StatefulEncoder::bytes_written() vs a counting writer after random call sequences (headers, items, delimiters, raw/padded bytes, offset tables, primitive elements of every VR)");
        o.min_evaluations = 10_000;
        o.min_classes = 100;
        o
    } else {
        let mut o = Outcome::new(leg_streams(cfg), "G-DS data sets written through write_dataset_with_ts(_options) in 4 transfer syntaxes × strategies (built objects and objects with recorded explicit lengths) and as complete files; every output exported (with the unpadded value length of every element, computed by the harness) and judged by the independent Python PS3.5 parser: length forms, even lengths, VR-specific pad byte, defined-length containers end exactly, delimiters, fragments, no trailing bytes");
        o.min_evaluations = 1000;
        o.min_classes = 200;
        o
    }
}
