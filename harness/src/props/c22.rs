//! C22 — Modality / VOI LUT outputs match the PS3.3 formulas.
//!
//! Independent f64 model (written from PS3.3 C.7.6.3.1.x / C.11.1 / C.11.2.1.2 / C.11.2.1.3):
//!   interpreted value v : the low `bits stored` bits of the stored word, two's complement when
//!                         Pixel Representation = 1 (bits above the high bit ignored)
//!   modality            : x = slope·v + intercept
//!   LINEAR       (C.11.2.1.2.1): x ≤ c−0.5−(w−1)/2 → ymin ; x > c−0.5+(w−1)/2 → ymax ;
//!                                else ((x−(c−0.5))/(w−1)+0.5)·(ymax−ymin)+ymin         (w ≥ 1)
//!   LINEAR_EXACT (C.11.2.1.3.2): x ≤ c−w/2 → ymin ; x > c+w/2 → ymax ;
//!                                else ((x−c)/w+0.5)·(ymax−ymin)+ymin                    (w > 0)
//!   SIGMOID      (C.11.2.1.3.1): (ymax−ymin)/(1+exp(−4(x−c)/w))+ymin                    (w ≥ 1)
//! with ymin = 0. The statement does not fix ymax: a table is accepted iff ONE ymax out of
//! {2^stored−1, 2^nextpow2(stored)−1, 255, 65535, T::MAX} makes ALL entries match. Widths outside
//! the standard's domain (w < 1 for LINEAR/SIGMOID, w ≤ 0 for LINEAR_EXACT) are left open by the
//! standard: the literal evaluation of the pseudo-code and the documented clamping (to 1 resp. 0)
//! are both accepted (again one choice for the whole table). Integer outputs may differ from the
//! real-valued formula by at most 1 (rounding mode unspecified); an `Err` is accepted when some
//! entry does not fit the output type. For linear functions and slope ≥ 0 the outputs ordered by
//! interpreted value must be non-decreasing (exact).

use crate::gen::img::*;
use crate::report::*;
use crate::rng::Rng;
use dicom_core::{DataElement, PrimitiveValue, Tag, VR};
use dicom_pixeldata::{
    ConvertOptions, Lut, ModalityLutOption, PixelDecoder, Rescale, VoiLutFunction, VoiLutOption, WindowLevel,
    WindowLevelTransform,
};
use serde_json::{json, Value};
use std::time::Duration;

#[derive(Clone, Copy, Debug, PartialEq)]
enum Func {
    Rescale,
    Linear,
    Exact,
    Sigmoid,
}

impl Func {
    fn name(self) -> &'static str {
        match self {
            Func::Rescale => "rescale",
            Func::Linear => "linear",
            Func::Exact => "linear-exact",
            Func::Sigmoid => "sigmoid",
        }
    }
    fn lib(self) -> VoiLutFunction {
        match self {
            Func::Linear | Func::Rescale => VoiLutFunction::Linear,
            Func::Exact => VoiLutFunction::LinearExact,
            Func::Sigmoid => VoiLutFunction::Sigmoid,
        }
    }
    fn attr(self) -> &'static str {
        match self {
            Func::Linear | Func::Rescale => "LINEAR",
            Func::Exact => "LINEAR_EXACT",
            Func::Sigmoid => "SIGMOID",
        }
    }
}

/// The model: window function on a rescaled value. Returns None where the literal formula is
/// undefined (0/0).
fn voi(f: Func, x: f64, c: f64, w: f64, ymax: f64) -> Option<f64> {
    let y = match f {
        Func::Rescale => x,
        Func::Linear => {
            if x <= c - 0.5 - (w - 1.0) / 2.0 {
                0.0
            } else if x > c - 0.5 + (w - 1.0) / 2.0 {
                ymax
            } else {
                ((x - (c - 0.5)) / (w - 1.0) + 0.5) * ymax
            }
        }
        Func::Exact => {
            if x <= c - w / 2.0 {
                0.0
            } else if x > c + w / 2.0 {
                ymax
            } else {
                ((x - c) / w + 0.5) * ymax
            }
        }
        Func::Sigmoid => ymax / (1.0 + (-4.0 * (x - c) / w).exp()),
    };
    if y.is_nan() {
        None
    } else {
        Some(y)
    }
}

/// Accepted interval of the real-valued result for one entry: the model evaluated at x and at
/// x ± δ (floating-point noise exactly at a threshold must not decide a verdict).
fn bracket(f: Func, x: f64, c: f64, w: f64, ymax: f64) -> Option<(f64, f64)> {
    let d = 1e-9 * x.abs().max(1.0);
    let mut lo = f64::INFINITY;
    let mut hi = f64::NEG_INFINITY;
    for xx in [x - d, x, x + d] {
        let y = voi(f, xx, c, w, ymax)?;
        lo = lo.min(y);
        hi = hi.max(y);
    }
    Some((lo, hi))
}

#[derive(Clone, Copy, Debug, PartialEq)]
enum Ty {
    U8,
    U16,
    I16,
    I32,
    F32,
    F64,
}

impl Ty {
    const ALL: [Ty; 6] = [Ty::U8, Ty::U16, Ty::I16, Ty::I32, Ty::F32, Ty::F64];
    fn name(self) -> &'static str {
        match self {
            Ty::U8 => "u8",
            Ty::U16 => "u16",
            Ty::I16 => "i16",
            Ty::I32 => "i32",
            Ty::F32 => "f32",
            Ty::F64 => "f64",
        }
    }
    fn is_int(self) -> bool {
        !matches!(self, Ty::F32 | Ty::F64)
    }
    fn range(self) -> (f64, f64) {
        match self {
            Ty::U8 => (0.0, 255.0),
            Ty::U16 => (0.0, 65535.0),
            Ty::I16 => (-32768.0, 32767.0),
            Ty::I32 => (-2147483648.0, 2147483647.0),
            Ty::F32 | Ty::F64 => (f64::NEG_INFINITY, f64::INFINITY),
        }
    }
}

/// One transformation = modality rescale + optional window.
#[derive(Clone, Debug)]
struct Xform {
    slope: f64,
    intercept: f64,
    func: Func,
    center: f64,
    width: f64,
}

impl Xform {
    fn json(&self) -> Value {
        json!({"slope": self.slope, "intercept": self.intercept, "function": self.func.name(), "center": self.center, "width": self.width})
    }
    /// widths the model accepts for this function: the given one (literal) and, outside the
    /// standard's domain, the documented clamp
    fn width_variants(&self) -> Vec<(f64, &'static str)> {
        match self.func {
            Func::Rescale => vec![(1.0, "-")],
            Func::Linear | Func::Sigmoid => {
                if self.width >= 1.0 {
                    vec![(self.width, "w")]
                } else {
                    vec![(1.0, "clamp1"), (self.width, "literal")]
                }
            }
            Func::Exact => {
                if self.width > 0.0 {
                    vec![(self.width, "w")]
                } else {
                    vec![(0.0, "clamp0"), (self.width, "literal")]
                }
            }
        }
    }
}

fn npot(b: u16) -> u32 {
    (b as u32).next_power_of_two()
}

fn ymax_candidates(bits_stored: u16, ty: Ty, func: Func) -> Vec<f64> {
    if func == Func::Rescale {
        return vec![0.0];
    }
    let mut v = vec![
        ((1u64 << npot(bits_stored)) - 1) as f64,
        255.0,
        ((1u64 << bits_stored) - 1) as f64,
        65535.0,
    ];
    if ty.is_int() {
        v.push(ty.range().1);
    }
    let mut out: Vec<f64> = Vec::new();
    for x in v {
        if !out.contains(&x) {
            out.push(x);
        }
    }
    out
}

struct Verdict {
    ok: bool,
    /// (index into `values`, interpreted, expected lo, expected hi, observed, ymax, width variant)
    first_bad: Option<(usize, i32, f64, f64, f64, f64, &'static str)>,
    accepted: Option<(f64, &'static str)>,
}

/// Compare a table of outputs (`out[i]` for interpreted value `vals[i]`) with the model.
fn compare(x: &Xform, bits_stored: u16, ty: Ty, vals: &[i32], out: &[f64]) -> Verdict {
    let mut best: Option<(usize, (usize, i32, f64, f64, f64, f64, &'static str))> = None;
    for ymax in ymax_candidates(bits_stored, ty, x.func) {
        for (w, wname) in x.width_variants() {
            let mut bad = None;
            let mut nbad = 0usize;
            for (i, v) in vals.iter().enumerate() {
                let xr = x.slope * (*v as f64) + x.intercept;
                let (lo, hi) = match bracket(x.func, xr, x.center, w, ymax) {
                    Some(b) => b,
                    None => continue, // literal formula undefined here: anything goes
                };
                let o = out[i];
                let scale = lo.abs().max(hi.abs()).max(1.0);
                let tol = if ty.is_int() {
                    1.0 + 1e-9 * scale
                } else if ty == Ty::F32 {
                    2e-6 * scale.max(ymax)
                } else {
                    1e-9 * scale.max(ymax)
                };
                let good = if !lo.is_finite() || !hi.is_finite() {
                    // formula overflows: a float output must agree in sign/infinity, ints cannot hold it
                    !ty.is_int() && (o == lo || o == hi || (o.is_infinite() && (lo.is_infinite() || hi.is_infinite())))
                } else {
                    o >= lo - tol && o <= hi + tol
                };
                if !good {
                    nbad += 1;
                    if bad.is_none() {
                        bad = Some((i, *v, lo, hi, o, ymax, wname));
                    }
                    if nbad > 8 {
                        break;
                    }
                }
            }
            match bad {
                None => {
                    return Verdict { ok: true, first_bad: None, accepted: Some((ymax, wname)) };
                }
                Some(b) => {
                    if best.as_ref().map(|(n, _)| nbad < *n).unwrap_or(true) {
                        best = Some((nbad, b));
                    }
                }
            }
        }
    }
    Verdict { ok: false, first_bad: best.map(|(_, b)| b), accepted: None }
}

/// Does some entry of the model fall outside the output type (so that an `Err` is acceptable)?
fn err_acceptable(x: &Xform, bits_stored: u16, ty: Ty, vals: &[i32]) -> bool {
    let (tmin, tmax) = ty.range();
    for ymax in ymax_candidates(bits_stored, ty, x.func) {
        for (w, _) in x.width_variants() {
            for v in vals {
                let xr = x.slope * (*v as f64) + x.intercept;
                match voi(x.func, xr, x.center, w, ymax) {
                    None => return true,
                    Some(y) => {
                        if !y.is_finite() || y < tmin || y > tmax {
                            return true;
                        }
                    }
                }
            }
        }
    }
    false
}

fn monotone_violation(vals: &[i32], out: &[f64]) -> Option<(i32, f64, i32, f64)> {
    let mut idx: Vec<usize> = (0..vals.len()).collect();
    idx.sort_by_key(|i| vals[*i]);
    for k in 1..idx.len() {
        let (a, b) = (idx[k - 1], idx[k]);
        if vals[a] == vals[b] {
            if out[a] != out[b] {
                return Some((vals[a], out[a], vals[b], out[b]));
            }
            continue;
        }
        if out[b] < out[a] {
            return Some((vals[a], out[a], vals[b], out[b]));
        }
    }
    None
}

/// Label for a monotonicity break that is a rounding overshoot of the ramp at a window edge: the
/// ramp value next to the edge lies outside [0, ymax] by a rounding error while the neighbour on
/// the flat side is exactly 0 or ymax.
fn edge_overshoot(func: Func, oa: f64, ob: f64, ymax: f64) -> bool {
    if !matches!(func, Func::Linear | Func::Exact) {
        return false;
    }
    let eps = 1e-6 * ymax.max(1.0);
    (ob == ymax && oa > ymax && oa - ymax < eps) || (oa == 0.0 && ob < 0.0 && -ob < eps)
}

#[derive(Clone, Copy, Debug, PartialEq)]
enum Mode {
    /// to_vec(): object's rescale attributes, no window
    DefaultPipeline,
    /// ModalityLutOption::Override + VoiLutOption::Identity
    OverrideIdentity,
    /// VoiLutOption::Custom(window), function from the object's VOI LUT Function attribute
    Custom,
    /// VoiLutOption::CustomWithFunction
    CustomWithFunction,
    /// VoiLutOption::First: window + function from the object's attributes
    First,
}

impl Mode {
    fn name(self) -> &'static str {
        match self {
            Mode::DefaultPipeline => "default",
            Mode::OverrideIdentity => "override+identity",
            Mode::Custom => "custom",
            Mode::CustomWithFunction => "custom-with-function",
            Mode::First => "first",
        }
    }
}

fn ds(v: f64) -> PrimitiveValue {
    PrimitiveValue::from(format!("{}", v))
}

macro_rules! call_ty {
    ($t:ty, $dec:expr, $opts:expr) => {{
        match guarded(|| $dec.to_vec_with_options::<$t>($opts)) {
            Err(p) => Err(format!("PANIC {}", p)),
            Ok(Err(e)) => Err(format!("{:?}", e)),
            Ok(Ok(v)) => Ok(v.into_iter().map(|x| x as f64).collect::<Vec<f64>>()),
        }
    }};
}

fn call(dec: &dicom_pixeldata::DecodedPixelData, opts: &ConvertOptions, ty: Ty) -> Result<Vec<f64>, String> {
    match ty {
        Ty::U8 => call_ty!(u8, dec, opts),
        Ty::U16 => call_ty!(u16, dec, opts),
        Ty::I16 => call_ty!(i16, dec, opts),
        Ty::I32 => call_ty!(i32, dec, opts),
        Ty::F32 => call_ty!(f32, dec, opts),
        Ty::F64 => call_ty!(f64, dec, opts),
    }
}

fn sign(s: bool) -> &'static str {
    if s {
        "signed"
    } else {
        "unsigned"
    }
}

/// Check one (image, transformation, mode) across all output types.
#[allow(clippy::too_many_arguments)]
fn check_pipeline(l: &mut Local, img: &GImg, x: &Xform, obj_x: &Xform, mode: Mode, replay: &Value) {
    // the object carries obj_x's parameters as attributes
    let mut obj = img.to_file_object(TS_EXPLICIT_LE, img.bits_allocated == 16);
    obj.put(DataElement::new(Tag(0x0028, 0x1052), VR::DS, ds(obj_x.intercept)));
    obj.put(DataElement::new(Tag(0x0028, 0x1053), VR::DS, ds(obj_x.slope)));
    if obj_x.func != Func::Rescale {
        obj.put(DataElement::new(Tag(0x0028, 0x1050), VR::DS, ds(obj_x.center)));
        obj.put(DataElement::new(Tag(0x0028, 0x1051), VR::DS, ds(obj_x.width)));
        obj.put(DataElement::new(Tag(0x0028, 0x1056), VR::CS, PrimitiveValue::from(obj_x.func.attr())));
    }
    let dec = match guarded(|| obj.decode_pixel_data()) {
        Ok(Ok(d)) => d,
        other => {
            l.note(format!("HARNESS: decode_pixel_data failed on a generated native image: {:?}", other.err()));
            l.count("harness_decode_failures", 1);
            return;
        }
    };
    // effective transformation for this mode
    let eff: Xform = match mode {
        Mode::DefaultPipeline => Xform { func: Func::Rescale, ..obj_x.clone() },
        Mode::OverrideIdentity => Xform { func: Func::Rescale, ..x.clone() },
        // rescale: override ; window: custom ; function: the object's attribute
        Mode::Custom => Xform { func: if obj_x.func == Func::Rescale { Func::Linear } else { obj_x.func }, ..x.clone() },
        Mode::CustomWithFunction => x.clone(),
        Mode::First => obj_x.clone(),
    };
    let opts = match mode {
        Mode::DefaultPipeline => ConvertOptions::new(),
        Mode::OverrideIdentity => ConvertOptions::new()
            .with_modality_lut(ModalityLutOption::Override(Rescale::new(x.slope, x.intercept)))
            .with_voi_lut(VoiLutOption::Identity),
        Mode::Custom => ConvertOptions::new()
            .with_modality_lut(ModalityLutOption::Override(Rescale::new(x.slope, x.intercept)))
            .with_voi_lut(VoiLutOption::Custom(WindowLevel { center: x.center, width: x.width })),
        Mode::CustomWithFunction => ConvertOptions::new()
            .with_modality_lut(ModalityLutOption::Override(Rescale::new(x.slope, x.intercept)))
            .with_voi_lut(VoiLutOption::CustomWithFunction(WindowLevel { center: x.center, width: x.width }, x.func.lib())),
        Mode::First => ConvertOptions::new().with_voi_lut(VoiLutOption::First),
    };
    if eff.func == Func::Rescale && !matches!(mode, Mode::DefaultPipeline | Mode::OverrideIdentity) {
        return;
    }
    let vals: Vec<i32> = img.samples.iter().map(|s| img.interpret(*s)).collect();
    // diagnosis model: bits stored taken to be bits allocated (no masking, sign from the top bit)
    let vals_alloc: Vec<i32> = img.samples.iter().map(|s| interpret(*s, img.bits_allocated, img.signed)).collect();
    let a = img.bits_allocated;
    let bs = img.bits_stored;
    l.count(&format!("tables_{}_{}", mode.name(), eff.func.name()), 1);
    for ty in Ty::ALL {
        let res = call(&dec, &opts, ty);
        let mut r = replay.clone();
        r["mode"] = json!(mode.name());
        r["effective_transformation"] = eff.json();
        r["output_type"] = json!(ty.name());
        let tclass = if ty.is_int() { "int" } else { "float" };
        match res {
            Err(e) if e.starts_with("PANIC") => {
                l.eval();
                l.violation(
                    format!("C22|pipeline|alloc{}|{}|{}|panic|{}", a, sign(img.signed), eff.func.name(), panic_loc(&e)),
                    format!("to_vec_with_options::<{}> panicked: {}", ty.name(), e),
                    r,
                );
            }
            Err(e) => {
                l.eval();
                l.count(&format!("results_err_{}", ty.name()), 1);
                let lut_err = e.contains("CreateLut");
                if !(lut_err && err_acceptable(&eff, bs, ty, &vals)) {
                    r["error"] = json!(e.chars().take(300).collect::<String>());
                    // label: would the error be legitimate for a table over all allocated bits?
                    let (amin, amax) = value_range(a, img.signed);
                    let all_alloc: Vec<i32> = (amin..=amax).collect();
                    let as_alloc = lut_err && bs < a && err_acceptable(&eff, a, ty, &all_alloc);
                    let key = if as_alloc {
                        format!("C22|pipeline|alloc{}|{}|bits-stored-ignored", a, sign(img.signed))
                    } else {
                        format!("C22|pipeline|alloc{}|{}|{}|{}|unexpected-error", a, sign(img.signed), eff.func.name(), tclass)
                    };
                    l.violation(
                        key,
                        format!(
                            "to_vec_with_options::<{}> failed although every value of the formula fits the type: {}",
                            ty.name(),
                            e.chars().take(200).collect::<String>()
                        ),
                        r,
                    );
                }
            }
            Ok(out) => {
                l.count(&format!("results_ok_{}", ty.name()), 1);
                if out.len() != vals.len() {
                    l.eval();
                    l.violation(
                        format!("C22|pipeline|alloc{}|length", a),
                        format!("to_vec_with_options returned {} values for {} samples", out.len(), vals.len()),
                        r,
                    );
                    continue;
                }
                l.evals(vals.len() as u64);
                let v = compare(&eff, bs, ty, &vals, &out);
                if v.ok {
                    if let Some((ym, wn)) = v.accepted {
                        if eff.func != Func::Rescale {
                            l.count(&format!("accepted_ymax_{}", ym), 1);
                            if wn != "w" {
                                l.count(&format!("accepted_width_handling_{}", wn), 1);
                            }
                        }
                    }
                    // monotonicity (exact) for linear functions and slope ≥ 0
                    if eff.slope >= 0.0 && eff.func != Func::Sigmoid {
                        l.eval();
                        l.count("monotonicity_checks", 1);
                        if let Some((va, oa, vb, ob)) = monotone_violation(&vals, &out) {
                            r["monotonicity"] = json!({"value_a": va, "output_a": oa, "value_b": vb, "output_b": ob});
                            // label: monotone when ordered by the value of all allocated bits?
                            let as_alloc = bs < a && monotone_violation(&vals_alloc, &out).is_none();
                            let ym = v.accepted.map(|x| x.0).unwrap_or(0.0);
                            let key = if as_alloc {
                                format!("C22|pipeline|alloc{}|{}|bits-stored-ignored", a, sign(img.signed))
                            } else if edge_overshoot(eff.func, oa, ob, ym) {
                                "C22|window-ramp|rounding-overshoot-at-edge".to_string()
                            } else {
                                format!("C22|pipeline|alloc{}|{}|{}|{}|non-monotonic", a, sign(img.signed), eff.func.name(), tclass)
                            };
                            l.violation(
                                key,
                                format!("output decreases: value {} → {}, value {} → {} ({}, {})", va, oa, vb, ob, mode.name(), ty.name()),
                                r,
                            );
                        }
                    }
                } else {
                    let (i, val, lo, hi, o, ym, wn) = v.first_bad.unwrap();
                    r["stored_value_hex"] = json!(format!("{:#06x}", img.samples[i]));
                    r["interpreted_value"] = json!(val);
                    r["expected_interval"] = json!([lo, hi]);
                    r["observed"] = json!(o);
                    r["closest_ymax"] = json!(ym);
                    r["width_handling"] = json!(wn);
                    // label: does the result follow the model with bits stored := bits allocated?
                    let as_alloc = bs < a && compare(&eff, a, ty, &vals_alloc, &out).ok;
                    let key = if as_alloc {
                        format!("C22|pipeline|alloc{}|{}|bits-stored-ignored", a, sign(img.signed))
                    } else {
                        format!("C22|pipeline|alloc{}|{}|{}|{}|mismatch", a, sign(img.signed), eff.func.name(), tclass)
                    };
                    l.violation(
                        key,
                        format!(
                            "bits allocated {}, stored {}, {}: stored {:#06x} (value {}) with {} {:?} → {} as {}, formula gives [{}, {}]{}",
                            a,
                            bs,
                            sign(img.signed),
                            img.samples[i],
                            val,
                            mode.name(),
                            eff.json().to_string(),
                            o,
                            ty.name(),
                            lo,
                            hi,
                            if as_alloc { " — result equals the formula applied to all allocated bits (bits stored ignored)" } else { "" }
                        ),
                        r,
                    );
                }
            }
        }
    }
}

macro_rules! lut_ty {
    ($t:ty, $ctor:expr, $raws:expr) => {{
        match guarded(|| $ctor) {
            Err(p) => Err(format!("PANIC {}", p)),
            Ok(Err(e)) => Err(format!("CreateLut {:?}", e)),
            Ok(Ok(lut)) => {
                let lut: Lut<$t> = lut;
                Ok($raws.iter().map(|r: &u16| lut.get(*r) as f64).collect::<Vec<f64>>())
            }
        }
    }};
}

/// Direct use of the Lut constructors + get.
fn check_lut_api(l: &mut Local, rng: &mut Rng, bs: u16, signed: bool, x: &Xform, replay: &Value) {
    let n = 1usize << bs;
    let mask: u32 = (1u32 << bs) - 1;
    // every stored value once, with garbage above the high bit (get() documents that it discards it)
    let raws: Vec<u16> = (0..n).map(|i| ((i as u32 & mask) | (rng.next_u32() & 0xFFFF & !mask)) as u16).collect();
    let vals: Vec<i32> = raws.iter().map(|r| interpret(*r, bs, signed)).collect();
    let rescale = Rescale::new(x.slope, x.intercept);
    let wl = WindowLevel { center: x.center, width: x.width };
    // constructors: 0 = new_rescale, 1 = new_rescale_and_window, 2 = new_window (no rescale), 3 = *_8bit (u8 only)
    for ctor in 0..4 {
        let eff: Xform = match ctor {
            0 => Xform { func: Func::Rescale, ..x.clone() },
            1 | 3 => x.clone(),
            _ => Xform { slope: 1.0, intercept: 0.0, ..x.clone() },
        };
        if ctor != 0 && x.func == Func::Rescale {
            continue;
        }
        let cname = ["new_rescale", "new_rescale_and_window", "new_window", "new_rescale_and_window_8bit"][ctor];
        for ty in Ty::ALL {
            if ctor == 3 && ty != Ty::U8 {
                continue;
            }
            macro_rules! go {
                ($t:ty) => {
                    match ctor {
                        0 => lut_ty!($t, Lut::<$t>::new_rescale(bs, signed, rescale), raws),
                        1 => lut_ty!($t, Lut::<$t>::new_rescale_and_window(bs, signed, rescale, WindowLevelTransform::new(x.func.lib(), wl)), raws),
                        _ => lut_ty!($t, Lut::<$t>::new_window(bs, signed, WindowLevelTransform::new(x.func.lib(), wl)), raws),
                    }
                };
            }
            let res: Result<Vec<f64>, String> = if ctor == 3 {
                lut_ty!(u8, Lut::<u8>::new_rescale_and_window_8bit(bs, signed, rescale, WindowLevelTransform::new(x.func.lib(), wl)), raws)
            } else {
                match ty {
                    Ty::U8 => go!(u8),
                    Ty::U16 => go!(u16),
                    Ty::I16 => go!(i16),
                    Ty::I32 => go!(i32),
                    Ty::F32 => go!(f32),
                    Ty::F64 => go!(f64),
                }
            };
            let mut r = replay.clone();
            r["constructor"] = json!(cname);
            r["effective_transformation"] = eff.json();
            r["output_type"] = json!(ty.name());
            let tclass = if ty.is_int() { "int" } else { "float" };
            l.count(&format!("lut_api_tables_{}", cname), 1);
            match res {
                Err(e) if e.starts_with("PANIC") => {
                    l.eval();
                    l.violation(format!("C22|lut-api|{}|panic|{}", cname, panic_loc(&e)), format!("Lut::{} panicked: {}", cname, e), r);
                }
                Err(e) => {
                    l.eval();
                    l.count(&format!("lut_api_err_{}", ty.name()), 1);
                    if !err_acceptable(&eff, bs, ty, &vals) {
                        r["error"] = json!(e.chars().take(300).collect::<String>());
                        l.violation(
                            format!("C22|lut-api|{}|{}|{}|{}|unexpected-error", cname, sign(signed), eff.func.name(), tclass),
                            format!("Lut::<{}>::{} failed although every value of the formula fits the type: {}", ty.name(), cname, e.chars().take(200).collect::<String>()),
                            r,
                        );
                    }
                }
                Ok(out) => {
                    l.count(&format!("lut_api_ok_{}", ty.name()), 1);
                    l.evals(n as u64);
                    let v = compare(&eff, bs, ty, &vals, &out);
                    if v.ok {
                        if eff.slope >= 0.0 && eff.func != Func::Sigmoid {
                            l.eval();
                            if let Some((va, oa, vb, ob)) = monotone_violation(&vals, &out) {
                                r["monotonicity"] = json!({"value_a": va, "output_a": oa, "value_b": vb, "output_b": ob});
                                let ym = v.accepted.map(|x| x.0).unwrap_or(0.0);
                                let key = if edge_overshoot(eff.func, oa, ob, ym) {
                                    "C22|window-ramp|rounding-overshoot-at-edge".to_string()
                                } else {
                                    format!("C22|lut-api|{}|{}|{}|{}|non-monotonic", cname, sign(signed), eff.func.name(), tclass)
                                };
                                l.violation(
                                    key,
                                    format!("output decreases: value {} → {}, value {} → {}", va, oa, vb, ob),
                                    r,
                                );
                            }
                        }
                    } else {
                        let (i, val, lo, hi, o, ym, wn) = v.first_bad.unwrap();
                        r["raw_value_hex"] = json!(format!("{:#06x}", raws[i]));
                        r["interpreted_value"] = json!(val);
                        r["expected_interval"] = json!([lo, hi]);
                        r["observed"] = json!(o);
                        r["closest_ymax"] = json!(ym);
                        r["width_handling"] = json!(wn);
                        l.violation(
                            format!("C22|lut-api|{}|{}|{}|{}|mismatch", cname, sign(signed), eff.func.name(), tclass),
                            format!(
                                "Lut::<{}>::{}(bits stored {}, {}) {}: get({:#06x}) (value {}) = {}, formula gives [{}, {}]",
                                ty.name(), cname, bs, sign(signed), eff.json().to_string(), raws[i], val, o, lo, hi
                            ),
                            r,
                        );
                    }
                }
            }
        }
    }
}

/// Sample a transformation for a value range [vmin, vmax] of interpreted values.
fn gen_xform(rng: &mut Rng, vmin: i32, vmax: i32, benign: bool) -> Xform {
    let span = (vmax - vmin).max(1) as f64;
    let slope = if benign {
        *rng.pick(&[1.0, 1.0, 0.5, 2.0, 0.25, 0.0])
    } else {
        match rng.usize(10) {
            0 => 1.0,
            1 => 0.0,
            2 => -1.0,
            3 => 0.5,
            4 => 2.0,
            5 => -0.5,
            6 => 1e-3,
            7 => 100.0,
            8 => (rng.range(1, 4000) as f64) / 1000.0,
            _ => -(rng.range(1, 3000) as f64) / 1000.0,
        }
    };
    let intercept = if benign {
        let lowest = if slope >= 0.0 { slope * vmin as f64 } else { slope * vmax as f64 };
        // keep the rescaled range non-negative so that unsigned outputs are exercised
        (-lowest).max(0.0) + *rng.pick(&[0.0, 0.0, 1.0, 0.5, 10.0])
    } else {
        match rng.usize(8) {
            0 => 0.0,
            1 => -1024.0,
            2 => 1000.0,
            3 => -0.5,
            4 => 0.5,
            5 => rng.range(-2000, 2000) as f64,
            6 => (rng.range(-200000, 200000) as f64) / 100.0,
            _ => rng.range(-70000, 70000) as f64,
        }
    };
    let (a, b) = (slope * vmin as f64 + intercept, slope * vmax as f64 + intercept);
    let (xmin, xmax) = (a.min(b), a.max(b));
    let xspan = (xmax - xmin).max(1.0);
    let func = *rng.pick(&[Func::Linear, Func::Linear, Func::Exact, Func::Sigmoid, Func::Rescale]);
    let center = match rng.usize(8) {
        0 => xmin,
        1 => xmax,
        2 => (xmin + xmax) / 2.0,
        3 => xmin - xspan,
        4 => xmax + xspan,
        5 => (xmin + rng.f64() * xspan).round() + 0.5,
        6 => (xmin + rng.f64() * xspan).round(),
        _ => ((xmin + rng.f64() * xspan) * 100.0).round() / 100.0,
    };
    let width = match rng.usize(14) {
        0 => 1.0,
        1 => 2.0,
        2 => 1.5,
        3 => 0.0,
        4 => 0.5,
        5 => -1.0,
        6 => -(rng.range(2, 400) as f64),
        7 => 1e-6,
        8 => 1e6,
        9 => xspan,
        10 => xspan + 1.0,
        11 => (rng.f64() * 2.0 * xspan * 100.0).round() / 100.0 + 1.0,
        12 => rng.range(1, 1 + span as i64) as f64,
        _ => (rng.f64() * 4.0 * 1000.0).round() / 1000.0,
    };
    Xform { slope, intercept, func, center, width }
}

fn value_range(bs: u16, signed: bool) -> (i32, i32) {
    if signed {
        (-(1i32 << (bs - 1)), (1i32 << (bs - 1)) - 1)
    } else {
        (0, (1i32 << bs) - 1)
    }
}

pub fn run(cfg: &Cfg) -> Outcome {
    // configurations: (bits allocated, bits stored, signed)
    let mut configs: Vec<(u16, u16, bool)> = Vec::new();
    for a in [8u16, 16] {
        for bs in 1..=a {
            for s in [false, true] {
                configs.push((a, bs, s));
            }
        }
    }
    let ncfg = configs.len() as u64; // 48
    // hand-made witnesses first
    let mut base = Local::new();
    if cfg.only_case.is_none() {
        // DESIGN §4 row 21: 6-bit signed samples in 8 bits allocated
        let img = GImg {
            rows: 1,
            cols: 4,
            frames: 1,
            spp: 1,
            bits_allocated: 8,
            bits_stored: 6,
            signed: true,
            photometric: "MONOCHROME2",
            fill: Fill::Ramp,
            samples: vec![0x3F, 0x20, 0x1F, 0xFF],
            explicit_number_of_frames: false,
        };
        let id = Xform { slope: 1.0, intercept: 0.0, func: Func::Rescale, center: 0.0, width: 1.0 };
        let replay = json!({"seed": cfg.seed, "stream": 220, "case": 0, "hand_made": true, "image": img.describe(), "object_attributes": id.json()});
        check_pipeline(&mut base, &img, &id, &id, Mode::DefaultPipeline, &replay);
        // unsigned 4-bit values with garbage in the upper nibble
        let img2 = GImg { bits_stored: 4, signed: false, samples: vec![0x01, 0xF1, 0x0F, 0xA5], ..img.clone() };
        let replay = json!({"seed": cfg.seed, "stream": 220, "case": 1, "hand_made": true, "image": img2.describe(), "object_attributes": id.json()});
        check_pipeline(&mut base, &img2, &id, &id, Mode::DefaultPipeline, &replay);
        // floating-point overshoot of the LINEAR ramp at its upper edge (found by the random
        // workload at seed 7): value 26710 → 65535.0000000001 > ymax, value 26711 → 65535
        let img3 = GImg {
            rows: 1,
            cols: 3,
            bits_allocated: 16,
            bits_stored: 15,
            signed: false,
            samples: vec![26709, 26710, 26711],
            ..img.clone()
        };
        let x3 = Xform { slope: 0.001, intercept: 0.5, func: Func::Linear, center: 27.13, width: 2.16 };
        let replay = json!({"seed": cfg.seed, "stream": 220, "case": 2, "hand_made": true, "image": img3.describe(), "option_parameters": x3.json()});
        check_pipeline(&mut base, &img3, &x3, &id, Mode::CustomWithFunction, &replay);
    }
    let per_cfg = cfg.n(20, 480);
    let local = run_parallel(
        cfg,
        22,
        RunLimits {
            cases: ncfg * per_cfg,
            wall: Duration::from_secs(if cfg.thorough() { 800 } else { 55 }),
        },
        |l: &mut Local, rng: &mut Rng, idx: u64| {
            let (a, bs, signed) = configs[(idx % ncfg) as usize];
            let garbage = bs < a;
            let img = all_values_image(rng, a, bs, signed, garbage);
            let (vmin, vmax) = value_range(bs, signed);
            let benign = rng.chance(1, 3);
            let x = gen_xform(rng, vmin, vmax, benign);
            let benign2 = rng.chance(1, 3);
            let obj_x = gen_xform(rng, vmin, vmax, benign2);
            l.count("parameter_sets", 2);
            l.count("stored_values_enumerated", 1u64 << bs);
            l.count(&format!("images_alloc{}_{}", a, sign(signed)), 1);
            for xf in [&x, &obj_x] {
                let wclass = if xf.func == Func::Rescale {
                    "-"
                } else if xf.width < 0.0 {
                    "w<0"
                } else if xf.width == 0.0 {
                    "w=0"
                } else if xf.width < 1.0 {
                    "0<w<1"
                } else if xf.width == 1.0 {
                    "w=1"
                } else if xf.width >= 1e6 {
                    "huge"
                } else {
                    "w>1"
                };
                let sclass = if xf.slope == 0.0 { "s=0" } else if xf.slope < 0.0 { "s<0" } else { "s>0" };
                l.class(format!("a{}|bs{}|{}|{}|{}|{}", a, bs, sign(signed), xf.func.name(), wclass, sclass));
                if wclass != "-" && wclass != "w>1" {
                    l.count(&format!("degenerate_width_{}", wclass), 1);
                }
            }
            let replay = json!({"seed": cfg.seed, "stream": 22, "case": idx,
                "bits_allocated": a, "bits_stored": bs, "signed": signed, "garbage_above_high_bit": garbage,
                "option_parameters": x.json(), "object_attributes": obj_x.json()});
            if l.want_sample() && idx % 211 == 0 {
                l.sample(json!({"case": idx, "bits_allocated": a, "bits_stored": bs, "signed": signed, "option_parameters": x.json(), "object_attributes": obj_x.json()}));
            }
            for mode in [Mode::DefaultPipeline, Mode::OverrideIdentity, Mode::Custom, Mode::CustomWithFunction, Mode::First] {
                check_pipeline(l, &img, &x, &obj_x, mode, &replay);
            }
            // the LUT type on its own, bits stored 1..16 (independent of the allocation)
            check_lut_api(l, rng, bs, signed, &x, &replay);
        },
    );
    base.merge(local);
    let mut o = Outcome::new(
        base,
        "every stored value for bits stored 1..=allocated × {unsigned, signed} × allocations {8,16} (48 configurations, random garbage above the high bit) × sampled slope/intercept/centre/width (incl. width 0, 1, <1, negative, 1e-6, 1e6; slope 0 and negative) × pipelines {to_vec default, Override+Identity, Custom, CustomWithFunction, First} × output types {u8,u16,i16,i32,f32,f64}, plus Lut::new_rescale/new_window/new_rescale_and_window(_8bit)+get directly; compared with an independent f64 model of slope·v+intercept and PS3.3 C.11.2.1.2/C.11.2.1.3; class = (alloc, stored, sign, function, width class, slope sign)",
    );
    o.exhaustive = false;
    o.min_evaluations = 100_000;
    o.min_classes = 200;
    o.extra.insert("configurations".into(), json!(ncfg));
    o.extra.insert("stored_values_exhaustive_per_configuration".into(), json!(true));
    o
}
