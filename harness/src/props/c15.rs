//! C15 — the standard data dictionary answers consistently for every tag, keyword and UID.
//!
//! Reference lookup: built from the *parsed generated source* (`dictsrc::parse_tags_rs`) by
//! painting one 65 536-cell array per group in reverse precedence
//! (group length → private creator → repeating element → repeating group → exact entry).
//! No hash map, no mask expression and no table is shared with the implementation.
//! Compiled constants come from `$OUT_DIR/dict_consts.rs` (harness build.rs).

use crate::dictsrc::{self, Kind, SrcEntry};
use crate::report::*;
use crate::rng::Rng;
use dicom_core::dictionary::{DataDictionary, TagRange, UidDictionary, VirtualVr};
use dicom_core::{Tag, VR};
use dicom_dictionary_std::{StandardDataDictionary, StandardSopClassDictionary};
use serde_json::json;
use std::collections::{BTreeMap, BTreeSet};
use std::str::FromStr;
use std::sync::atomic::{AtomicU64, Ordering};
use std::sync::Mutex;
use std::time::{Duration, Instant};

mod consts {
    #![allow(deprecated)]
    include!(concat!(env!("OUT_DIR"), "/dict_consts.rs"));
}

const NONE: u16 = u16::MAX;
const GROUP_LENGTH: u16 = u16::MAX - 1;
const PRIVATE_CREATOR: u16 = u16::MAX - 2;

struct RefEntry {
    alias: String,
    range: TagRange,
    vr: Option<VirtualVr>,
    vr_text: String,
}

fn parse_vr(text: &str) -> Option<VirtualVr> {
    match text {
        "Xs" => Some(VirtualVr::Xs),
        "Ox" => Some(VirtualVr::Ox),
        "Px" => Some(VirtualVr::Px),
        "Lt" => Some(VirtualVr::Lt),
        t => VR::from_str(t).ok().map(VirtualVr::Exact),
    }
}

struct Reference {
    entries: Vec<RefEntry>,
    /// per group: indices of Single entries (element, idx)
    singles: Vec<Vec<(u16, u16)>>,
    /// per high byte of the group: Group100 entries (element, idx)
    group100: Vec<Vec<(u16, u16)>>,
    /// per group: Element100 entries (element base, idx)
    elem100: Vec<Vec<(u16, u16)>>,
    /// pairs of entries that claim the same cell at the same precedence level, or a
    /// repeating-group and a repeating-element entry covering the same cell (the statement does
    /// not order those): either answer is accepted
    alternates: BTreeSet<(u16, u16)>,
}

impl Reference {
    fn build(src: &[SrcEntry]) -> Result<Reference, String> {
        let mut r = Reference {
            entries: Vec::new(),
            singles: vec![Vec::new(); 65536],
            group100: vec![Vec::new(); 256],
            elem100: vec![Vec::new(); 65536],
            alternates: BTreeSet::new(),
        };
        if src.len() >= (u16::MAX - 8) as usize {
            return Err("too many dictionary entries for the u16 index".into());
        }
        for (i, e) in src.iter().enumerate() {
            let t = Tag(e.tag.0, e.tag.1);
            let range = match e.kind {
                Kind::Single => TagRange::Single(t),
                Kind::Group100 => TagRange::Group100(t),
                Kind::Element100 => TagRange::Element100(t),
            };
            r.entries.push(RefEntry { alias: e.alias.clone(), range, vr: parse_vr(&e.vr), vr_text: e.vr.clone() });
            let i = i as u16;
            match e.kind {
                Kind::Single => r.singles[e.tag.0 as usize].push((e.tag.1, i)),
                Kind::Group100 => {
                    if e.tag.0 & 0x00FF != 0 {
                        return Err(format!("repeating-group entry {} with a non-zero low group byte", e.alias));
                    }
                    r.group100[(e.tag.0 >> 8) as usize].push((e.tag.1, i));
                }
                Kind::Element100 => {
                    if e.tag.1 & 0x00FF != 0 {
                        return Err(format!("repeating-element entry {} with a non-zero low element byte", e.alias));
                    }
                    r.elem100[e.tag.0 as usize].push((e.tag.1, i));
                }
            }
        }
        Ok(r)
    }

    /// Paint the expected entry index of every element of group `g` into `cells`.
    fn paint(&self, g: u16, cells: &mut [u16], alts: &mut Vec<(u16, u16)>) {
        for c in cells.iter_mut() {
            *c = NONE;
        }
        // lowest precedence first
        cells[0] = GROUP_LENGTH;
        if g % 2 == 1 {
            for e in 0x0010..=0x00FFusize {
                cells[e] = PRIVATE_CREATOR;
            }
        }
        for &(base, idx) in &self.elem100[g as usize] {
            for off in 0..=0xFFu16 {
                let c = &mut cells[(base + off) as usize];
                if *c < PRIVATE_CREATOR {
                    alts.push((*c, idx));
                }
                *c = idx;
            }
        }
        for &(elem, idx) in &self.group100[(g >> 8) as usize] {
            let c = &mut cells[elem as usize];
            if *c < PRIVATE_CREATOR {
                alts.push((*c, idx));
            }
            *c = idx;
        }
        let mut painted_single: Vec<u16> = Vec::new();
        for &(elem, idx) in &self.singles[g as usize] {
            let c = &mut cells[elem as usize];
            if painted_single.contains(&elem) {
                alts.push((*c, idx));
            }
            *c = idx;
            painted_single.push(elem);
        }
    }

    fn describe(&self, idx: u16) -> String {
        match idx {
            NONE => "None".into(),
            GROUP_LENGTH => "generic group length entry (UL)".into(),
            PRIVATE_CREATOR => "generic private creator entry (LO)".into(),
            i => {
                let e = &self.entries[i as usize];
                format!("{} {:?} {}", e.alias, e.range, e.vr_text)
            }
        }
    }

    fn matches(&self, idx: u16, got: Option<&dicom_core::dictionary::DataDictionaryEntryRef<'static>>) -> bool {
        match (idx, got) {
            (NONE, None) => true,
            (NONE, Some(_)) => false,
            (_, None) => false,
            (GROUP_LENGTH, Some(e)) => e.tag == TagRange::GroupLength && e.vr == VirtualVr::Exact(VR::UL),
            (PRIVATE_CREATOR, Some(e)) => e.tag == TagRange::PrivateCreator && e.vr == VirtualVr::Exact(VR::LO),
            (i, Some(e)) => {
                let r = &self.entries[i as usize];
                e.alias == r.alias && e.tag == r.range && Some(e.vr) == r.vr
            }
        }
    }
}

fn witness_class(r: &Reference, tag: (u16, u16), expected: u16, got: Option<&dicom_core::dictionary::DataDictionaryEntryRef<'static>>) -> String {
    let exp = match expected {
        NONE => "none".to_string(),
        GROUP_LENGTH => "group-length".into(),
        PRIVATE_CREATOR => "private-creator".into(),
        i => match r.entries[i as usize].range {
            TagRange::Single(_) => "exact".into(),
            TagRange::Group100(_) => "repeating-group".into(),
            TagRange::Element100(_) => "repeating-element".into(),
            _ => "?".into(),
        },
    };
    let obs = match got {
        None => "none".to_string(),
        Some(e) => match e.tag {
            TagRange::Single(_) => "exact".into(),
            TagRange::Group100(_) => "repeating-group".into(),
            TagRange::Element100(_) => "repeating-element".into(),
            TagRange::GroupLength => "group-length".into(),
            TagRange::PrivateCreator => "private-creator".into(),
        },
    };
    let g = if tag.0 % 2 == 1 { "odd-group" } else { "even-group" };
    format!("by_tag|expected={}|observed={}|{}", exp, obs, g)
}

fn check_group(l: &mut Local, r: &Reference, g: u16, cells: &mut Vec<u16>, elements: Option<&[u16]>, alts_seen: &mut Vec<(u16, u16)>) {
    alts_seen.clear();
    r.paint(g, cells, alts_seen);
    let dict = StandardDataDictionary;
    let mut n = 0u64;
    let mut hits = [0u64; 6];
    let mut one = |l: &mut Local, e: u16| {
        let got = dict.by_tag(Tag(g, e));
        let exp = cells[e as usize];
        n += 1;
        let k = match exp {
            NONE => 0,
            GROUP_LENGTH => 1,
            PRIVATE_CREATOR => 2,
            i => match r.entries[i as usize].range {
                TagRange::Single(_) => 3,
                TagRange::Group100(_) => 4,
                _ => 5,
            },
        };
        hits[k] += 1;
        if !r.matches(exp, got) {
            // accepted alternates (same-level conflicts in the table itself)
            let alt_ok = got
                .map(|ge| {
                    alts_seen.iter().chain(r.alternates.iter()).any(|&(a, b)| {
                        (a == exp && b < PRIVATE_CREATOR && r.matches(b, Some(ge))) || (b == exp && a < PRIVATE_CREATOR && r.matches(a, Some(ge)))
                    })
                })
                .unwrap_or(false);
            if alt_ok {
                l.count("accepted_table_ambiguities", 1);
                return;
            }
            l.violation(
                witness_class(r, (g, e), exp, got),
                format!(
                    "by_tag(({:04X},{:04X})) = {}, reference says {}",
                    g,
                    e,
                    got.map(|x| format!("{} {:?} {:?}", x.alias, x.tag, x.vr)).unwrap_or_else(|| "None".into()),
                    r.describe(exp)
                ),
                json!({"tag": format!("({:04X},{:04X})", g, e), "expected": r.describe(exp),
                       "observed": got.map(|x| format!("{} {:?} {:?}", x.alias, x.tag, x.vr))}),
            );
        }
    };
    match elements {
        None => {
            for e in 0..=0xFFFFu16 {
                one(l, e);
            }
        }
        Some(es) => {
            for &e in es {
                one(l, e);
            }
        }
    }
    l.evals(n);
    for (k, name) in ["expect_none", "expect_group_length", "expect_private_creator", "expect_exact", "expect_repeating_group", "expect_repeating_element"].iter().enumerate() {
        if hits[k] > 0 {
            l.count(name, hits[k]);
        }
    }
}

fn parse_doc_tag(doc: &str) -> Option<(u16, u16)> {
    // "(0010,0010)" or "(6000-60FF,0010)" or "(0020,3100-31FF)": take the low end of ranges
    let inner = doc.strip_prefix('(')?.strip_suffix(')')?;
    let (g, e) = inner.split_once(',')?;
    let g = g.split('-').next()?;
    let e = e.split('-').next()?;
    Some((u16::from_str_radix(g, 16).ok()?, u16::from_str_radix(e, 16).ok()?))
}

struct SopRow {
    uid: String,
    name: String,
    alias: String,
    retired: bool,
}

/// rows of `SOP_CLASSES` and the documented `pub const` UIDs of uids.rs
fn parse_uids_rs() -> Result<(Vec<SopRow>, Vec<(String, String, String)>), String> {
    let path = format!("{}/dictionary-std/src/uids.rs", dictsrc::repo_root());
    let text = std::fs::read_to_string(&path).map_err(|e| format!("{}: {}", path, e))?;
    let mut rows = Vec::new();
    let mut consts = Vec::new();
    let mut in_sop = false;
    let mut last_doc: Option<String> = None;
    for line in text.lines() {
        let l = line.trim();
        if let Some(d) = l.strip_prefix("/// ") {
            last_doc = Some(d.to_string());
            continue;
        }
        if let Some(rest) = l.strip_prefix("pub const ") {
            if let Some((name, rhs)) = rest.split_once(':') {
                if let Some(v) = rhs.trim().strip_prefix("&str = \"") {
                    if let Some(uid) = v.strip_suffix("\";") {
                        consts.push((name.trim().to_string(), uid.to_string(), last_doc.clone().unwrap_or_default()));
                    }
                }
            }
            last_doc = None;
            continue;
        }
        if l.starts_with("pub(crate) const SOP_CLASSES") {
            in_sop = true;
            continue;
        }
        if in_sop {
            if l.starts_with("];") {
                in_sop = false;
                continue;
            }
            if let Some(rest) = l.strip_prefix("E::new(\"") {
                // uid", "name", "alias", SopClass, false),
                let parts: Vec<&str> = rest.split("\", \"").collect();
                if parts.len() != 3 {
                    return Err(format!("unexpected SOP class row: {}", l));
                }
                let (alias, tail) = parts[2].split_once("\", ").ok_or_else(|| format!("unexpected SOP class row: {}", l))?;
                let retired = tail.contains("true");
                if !tail.starts_with("SopClass") {
                    return Err(format!("row in SOP_CLASSES that is not a SopClass: {}", l));
                }
                rows.push(SopRow { uid: parts[0].to_string(), name: parts[1].to_string(), alias: alias.to_string(), retired });
            }
        }
        if !l.starts_with("#[") {
            last_doc = None;
        }
    }
    if rows.len() < 100 {
        return Err(format!("only {} SOP class rows parsed", rows.len()));
    }
    Ok((rows, consts))
}

pub fn run(cfg: &Cfg) -> Outcome {
    let fail = |msg: String| {
        let mut o = Outcome::new(Local::new(), "C15");
        o.inconclusive = Some(msg);
        o
    };
    let src = match dictsrc::parse_tags_rs() {
        Ok(s) => s,
        Err(e) => return fail(format!("cannot parse tags.rs: {}", e)),
    };
    let reference = match Reference::build(&src) {
        Ok(r) => r,
        Err(e) => return fail(e),
    };
    let mut total = Local::new();

    // ---- keywords, constants, doc comments (single threaded, small) ---------------------------
    let mut k = Local::new();
    let dict = StandardDataDictionary;
    let mut alias_seen: BTreeMap<&str, usize> = BTreeMap::new();
    for (i, e) in src.iter().enumerate() {
        let r = &reference.entries[i];
        if r.vr.is_none() {
            k.violation(
                "source|unknown-vr-text".to_string(),
                format!("entry {} has VR text {:?} which the harness cannot map", e.alias, e.vr),
                json!({"alias": e.alias}),
            );
        }
        k.eval();
        let dup = alias_seen.insert(e.alias.as_str(), i);
        match dict.by_name(&e.alias) {
            Some(got) if got.alias == e.alias && got.tag == r.range && Some(got.vr) == r.vr => {}
            Some(got) if got.alias == e.alias && dup.is_some() => {
                // the table itself lists the keyword twice: the answer must be one of those rows
                let j = dup.unwrap();
                if !(got.tag == reference.entries[j].range) {
                    k.violation(
                        "by_name|duplicate-keyword|neither-row".to_string(),
                        format!("by_name({:?}) = {:?}, the table rows are {:?} and {:?}", e.alias, got.tag, reference.entries[j].range, r.range),
                        json!({"keyword": e.alias}),
                    );
                } else {
                    k.count("duplicate_keywords_in_table", 1);
                }
            }
            other => k.violation(
                format!("by_name|{:?}|mismatch", e.kind),
                format!("by_name({:?}) = {:?}, the table row is {:?} {}", e.alias, other.map(|x| (x.alias, x.tag, x.vr)), r.range, e.vr),
                json!({"keyword": e.alias, "expected": format!("{:?} {}", r.range, e.vr), "observed": format!("{:?}", other)}),
            ),
        }
        k.class(format!("by_name|{:?}|vr={}", e.kind, e.vr));
        // second witness: the doc comment above the constant (copied from the published table)
        k.eval();
        match e.doc_tag.as_deref().and_then(parse_doc_tag) {
            Some(t) if t == e.tag => {}
            Some(t) => k.violation(
                "tags|constant-vs-doc-comment|tag".to_string(),
                format!("constant {} = ({:04X},{:04X}) but its table comment says ({:04X},{:04X})", e.konst, e.tag.0, e.tag.1, t.0, t.1),
                json!({"constant": e.konst, "doc": e.doc_tag}),
            ),
            None => k.count("doc_comment_tag_unparsed", 1),
        }
        if let Some(dv) = &e.doc_vr {
            // the table's "up" (unsigned long used as a pointer) is a UL
            let dvn = if dv == "up" { "ul".to_string() } else { dv.to_ascii_lowercase() };
            if dvn != e.vr.to_ascii_lowercase() {
                k.violation(
                    "tags|entry-vs-doc-comment|vr".to_string(),
                    format!("entry {} has VR {} but its table comment says {}", e.alias, e.vr, dv),
                    json!({"alias": e.alias, "entry_vr": e.vr, "doc_vr": dv}),
                );
            }
        }
    }
    // entries the dictionary itself hands out for generic tags must be reachable by their keyword
    for (t, what) in [(Tag(0x0008, 0x0000), "group-length"), (Tag(0x0009, 0x0010), "private-creator"), (Tag(0x0011, 0x00FF), "private-creator")] {
        k.eval();
        if let Some(e) = dict.by_tag(t) {
            match dict.by_name(e.alias) {
                Some(back) if back.alias == e.alias && back.tag == e.tag => {}
                other => k.violation(
                    format!("by_name|{}|keyword-of-returned-entry-not-found", what),
                    format!(
                        "by_tag({}) returns the entry {:?} ({:?}) but by_name({:?}) = {:?}",
                        t, e.alias, e.tag, e.alias, other.map(|x| (x.alias, x.tag))
                    ),
                    json!({"tag": t.to_string(), "keyword": e.alias, "expected": format!("Some(entry {:?} {:?})", e.alias, e.tag),
                           "observed": format!("{:?}", other.map(|x| (x.alias, x.tag)))}),
                ),
            }
        }
    }
    // unknown keywords
    for name in ["", "patientname", "PatientName ", "NoSuchAttributeKeyword", "(0010,0010)"] {
        k.eval();
        if let Some(e) = dict.by_name(name) {
            k.violation(
                "by_name|unknown-keyword-found".to_string(),
                format!("by_name({:?}) = {:?}", name, e),
                json!({"keyword": name}),
            );
        }
    }
    // compiled constants
    let by_const: BTreeMap<&str, &SrcEntry> = src.iter().map(|e| (e.konst.as_str(), e)).collect();
    for (name, tag) in consts::TAG_CONSTS {
        k.eval();
        match by_const.get(name) {
            Some(e) if e.kind == Kind::Single && (e.tag.0, e.tag.1) == (tag.0, tag.1) => {
                // constant → by_tag → entry with the keyword of the row that names this constant
                match dict.by_tag(*tag) {
                    Some(got) if got.tag == TagRange::Single(*tag) => {
                        if got.alias != e.alias && alias_seen.get(got.alias).map(|j| src[*j].tag) != Some(e.tag) {
                            k.violation(
                                "tags|constant|by_tag-gives-other-entry".to_string(),
                                format!("tags::{} = {} but by_tag gives {:?}", name, tag, got.alias),
                                json!({"constant": name}),
                            );
                        }
                    }
                    other => k.violation(
                        "tags|constant|by_tag-mismatch".to_string(),
                        format!("tags::{} = {} but by_tag gives {:?}", name, tag, other),
                        json!({"constant": name}),
                    ),
                }
                match dict.by_name(&e.alias) {
                    Some(got) if got.tag == TagRange::Single(*tag) => {}
                    Some(_) if alias_seen.get(e.alias.as_str()).map(|j| src[*j].konst != e.konst).unwrap_or(false) => {}
                    other => k.violation(
                        "tags|constant|differs-from-entry-tag".to_string(),
                        format!("tags::{} = {} but the entry of keyword {:?} has tag {:?}", name, tag, e.alias, other.map(|x| x.tag)),
                        json!({"constant": name, "keyword": e.alias}),
                    ),
                }
            }
            Some(e) => k.violation(
                "tags|constant|compiled-differs-from-source".to_string(),
                format!("compiled tags::{} = {} but the source line parses to ({:04X},{:04X}) {:?}", name, tag, e.tag.0, e.tag.1, e.kind),
                json!({"constant": name}),
            ),
            None => k.violation(
                "tags|constant|without-entry".to_string(),
                format!("tags::{} = {} is not referenced by any dictionary entry", name, tag),
                json!({"constant": name}),
            ),
        }
    }
    for (name, range) in consts::RANGE_CONSTS {
        k.eval();
        match by_const.get(name) {
            Some(e) => {
                let want = match e.kind {
                    Kind::Single => TagRange::Single(Tag(e.tag.0, e.tag.1)),
                    Kind::Group100 => TagRange::Group100(Tag(e.tag.0, e.tag.1)),
                    Kind::Element100 => TagRange::Element100(Tag(e.tag.0, e.tag.1)),
                };
                let entry_tag = dict.by_name(&e.alias).map(|x| x.tag);
                if *range != want || entry_tag != Some(*range) {
                    k.violation(
                        "tags|range-constant|differs-from-entry-tag".to_string(),
                        format!("tags::{} = {:?}; source {:?}; entry of {:?} has {:?}", name, range, want, e.alias, entry_tag),
                        json!({"constant": name}),
                    );
                }
            }
            None => k.violation(
                "tags|range-constant|without-entry".to_string(),
                format!("tags::{} = {:?} is not referenced by any dictionary entry", name, range),
                json!({"constant": name}),
            ),
        }
    }
    k.count("tag_constants", consts::TAG_CONSTS.len() as u64);
    k.count("range_constants", consts::RANGE_CONSTS.len() as u64);
    k.count("table_entries", src.len() as u64);
    if consts::TAG_CONSTS.len() + consts::RANGE_CONSTS.len() != by_const.len() {
        k.note(format!(
            "{} compiled constants vs {} constants referenced by entries",
            consts::TAG_CONSTS.len() + consts::RANGE_CONSTS.len(),
            by_const.len()
        ));
    }
    k.class("constants");
    total.merge(k);

    // ---- SOP class registry --------------------------------------------------------------------
    let mut u = Local::new();
    match parse_uids_rs() {
        Err(e) => return fail(format!("cannot parse uids.rs: {}", e)),
        Ok((rows, uconsts)) => {
            let sd = StandardSopClassDictionary;
            let mut uid_count: BTreeMap<&str, u32> = BTreeMap::new();
            let mut kw_count: BTreeMap<&str, u32> = BTreeMap::new();
            for r in &rows {
                *uid_count.entry(&r.uid).or_insert(0) += 1;
                *kw_count.entry(&r.alias).or_insert(0) += 1;
            }
            for r in &rows {
                u.eval();
                let by_uid = sd.by_uid(&r.uid);
                let by_kw = sd.by_keyword(&r.alias);
                let same = |e: &dicom_core::dictionary::UidDictionaryEntryRef<'static>| e.uid == r.uid && e.alias == r.alias && e.name == r.name && e.retired == r.retired;
                let dup = uid_count[r.uid.as_str()] > 1 || kw_count[r.alias.as_str()] > 1;
                let witness = json!({"uid": r.uid, "keyword": r.alias, "name": r.name});
                match (by_uid, by_kw) {
                    (Some(a), Some(b)) if same(a) && same(b) => {}
                    (Some(a), Some(b)) if a.uid == b.uid && a.alias == b.alias && dup => {
                        u.count("duplicate_sop_class_rows", 1);
                    }
                    (a, b) => u.violation(
                        format!(
                            "sop-class|{}|{}",
                            if a.map(|x| same(x)).unwrap_or(false) { "by_uid-ok" } else if a.is_some() { "by_uid-other-entry" } else { "by_uid-none" },
                            if b.map(|x| same(x)).unwrap_or(false) { "by_keyword-ok" } else if b.is_some() { "by_keyword-other-entry" } else { "by_keyword-none" }
                        ),
                        format!("SOP class row {} / {}: by_uid = {:?}, by_keyword = {:?}", r.uid, r.alias, a.map(|x| (x.uid, x.alias)), b.map(|x| (x.uid, x.alias))),
                        witness,
                    ),
                }
                u.class(format!("sop-class|retired={}|arc={}", r.retired, r.uid.split('.').take(7).collect::<Vec<_>>().join(".")));
            }
            // documented constants: compiled value == source literal; SOP classes are found by UID
            let compiled: BTreeMap<&str, &str> = consts::UID_CONSTS.iter().map(|(n, v)| (*n, *v)).collect();
            let row_uids: BTreeSet<&str> = rows.iter().map(|r| r.uid.as_str()).collect();
            for (name, uid, doc) in &uconsts {
                u.eval();
                if compiled.get(name.as_str()) != Some(&uid.as_str()) {
                    u.violation(
                        "uids|constant|compiled-differs-from-source".to_string(),
                        format!("uids::{} compiled as {:?}, source literal {:?}", name, compiled.get(name.as_str()), uid),
                        json!({"constant": name}),
                    );
                }
                if let Some(n) = doc.strip_prefix("SOP Class: ") {
                    match sd.by_uid(uid) {
                        Some(e) if e.uid == uid => {
                            if e.name != n {
                                u.count("sop_class_constant_doc_name_differs", 1);
                            }
                        }
                        other => u.violation(
                            "sop-class|constant|by_uid-fails".to_string(),
                            format!("uids::{} = {:?} (documented as SOP class {:?}) but by_uid = {:?}", name, uid, n, other.map(|x| x.uid)),
                            json!({"constant": name, "uid": uid}),
                        ),
                    }
                    if !row_uids.contains(uid.as_str()) {
                        u.violation(
                            "sop-class|constant|missing-from-table".to_string(),
                            format!("uids::{} = {:?} is documented as a SOP class but has no row in SOP_CLASSES", name, uid),
                            json!({"constant": name, "uid": uid}),
                        );
                    }
                } else if sd.by_uid(uid).is_some() && !row_uids.contains(uid.as_str()) {
                    u.violation(
                        "sop-class|non-sop-class-uid-found".to_string(),
                        format!("uids::{} = {:?} ({}) is found in the SOP class dictionary", name, uid, doc),
                        json!({"constant": name, "uid": uid}),
                    );
                }
            }
            for q in ["", "1.2.840.10008", "1.2.840.10008.1.1.", "CTImageStorag", "ctimagestorage"] {
                u.eval();
                if sd.by_uid(q).is_some() || sd.by_keyword(q).is_some() {
                    u.violation("sop-class|unknown-found".to_string(), format!("{:?} is found in the SOP class dictionary", q), json!({"query": q}));
                }
            }
            u.count("sop_class_rows", rows.len() as u64);
            u.count("uid_constants", uconsts.len() as u64);
        }
    }
    total.merge(u);

    // ---- the tag space -------------------------------------------------------------------------
    let exhaustive = cfg.thorough() && cfg.only_case.is_none() && cfg.scale >= 1.0;
    // groups that matter: every group with an entry, their neighbours, the repeating ranges
    let mut boundary: BTreeSet<u16> = BTreeSet::new();
    for e in &src {
        for d in [-1i32, 0, 1, 2] {
            let g = e.tag.0 as i32 + d;
            if (0..=0xFFFF).contains(&g) {
                boundary.insert(g as u16);
            }
        }
        if e.kind == Kind::Group100 {
            for x in 0..=0xFFu16 {
                boundary.insert(e.tag.0 | x);
            }
            boundary.insert(e.tag.0.wrapping_sub(1));
            boundary.insert(e.tag.0.wrapping_add(0x100));
        }
    }
    for g in [0u16, 1, 2, 3, 7, 8, 9, 0x7FDF, 0x7FE0, 0x7FE1, 0xFFFC, 0xFFFD, 0xFFFE, 0xFFFF] {
        boundary.insert(g);
    }
    let groups: Vec<u16> = if exhaustive {
        (0..=0xFFFFu16).collect()
    } else {
        let mut rng = Rng::derive(cfg.seed, 151, 0);
        let mut gs = boundary.clone();
        let want = gs.len() + cfg.n(512, 4096) as usize;
        while gs.len() < want.min(65536) {
            gs.insert(rng.next_u32() as u16);
        }
        gs.into_iter().collect()
    };
    let next = AtomicU64::new(0);
    let merged = Mutex::new(Local::new());
    let start = Instant::now();
    let wall = Duration::from_secs(if cfg.thorough() { 1500 } else { 300 });
    let timed_out = std::sync::atomic::AtomicBool::new(false);
    std::thread::scope(|s| {
        for _ in 0..cfg.threads.max(1) {
            s.spawn(|| {
                let mut l = Local::new();
                let mut cells = vec![NONE; 65536];
                let mut alts = Vec::new();
                loop {
                    let i = next.fetch_add(1, Ordering::Relaxed) as usize;
                    if i >= groups.len() {
                        break;
                    }
                    if start.elapsed() > wall {
                        timed_out.store(true, Ordering::Relaxed);
                        break;
                    }
                    let g = groups[i];
                    let r = guarded(|| check_group(&mut l, &reference, g, &mut cells, None, &mut alts));
                    if let Err(p) = r {
                        l.violation(format!("by_tag|panic|{}", panic_loc(&p)), format!("by_tag panicked in group {:04X}: {}", g, p), json!({"group": g}));
                    }
                    l.class(format!("group|hi={:02X}|{}", g >> 8, if g % 2 == 1 { "odd" } else { "even" }));
                }
                merged.lock().unwrap().merge(l);
            });
        }
    });
    let mut space = merged.into_inner().unwrap();
    space.count("groups_fully_enumerated", groups.len() as u64);
    if timed_out.load(Ordering::Relaxed) {
        space.note("wall budget reached before all groups were enumerated".to_string());
    }
    total.merge(space);

    if !exhaustive {
        // all groups for sampled elements
        let mut rng = Rng::derive(cfg.seed, 152, 0);
        let mut elems: BTreeSet<u16> = [0x0000u16, 0x0001, 0x000F, 0x0010, 0x0011, 0x00FE, 0x00FF, 0x0100, 0x1000, 0x3000, 0x3100, 0x31FF, 0x3200, 0x30FF, 0xFFFF, 0xE000]
            .into_iter()
            .collect();
        for e in &src {
            if e.kind != Kind::Single {
                elems.insert(e.tag.1);
            }
        }
        let want = elems.len() + cfg.n(160, 1024) as usize;
        while elems.len() < want {
            elems.insert(rng.next_u32() as u16);
        }
        let elems: Vec<u16> = elems.into_iter().collect();
        let next = AtomicU64::new(0);
        let merged = Mutex::new(Local::new());
        std::thread::scope(|s| {
            for _ in 0..cfg.threads.max(1) {
                s.spawn(|| {
                    let mut l = Local::new();
                    let mut cells = vec![NONE; 65536];
                    let mut alts = Vec::new();
                    loop {
                        let g = next.fetch_add(1, Ordering::Relaxed);
                        if g > 0xFFFF {
                            break;
                        }
                        check_group(&mut l, &reference, g as u16, &mut cells, Some(&elems), &mut alts);
                    }
                    merged.lock().unwrap().merge(l);
                });
            }
        });
        let mut l2 = merged.into_inner().unwrap();
        l2.count("elements_enumerated_over_all_groups", elems.len() as u64);
        l2.class("all-groups-for-sampled-elements");
        total.merge(l2);
    }

    let mut o = Outcome::new(
        total,
        if exhaustive {
            "by_tag over all 2^32 tags vs a reference painted per group from the parsed tags.rs (group length → private creator → repeating element → repeating group → exact); by_name for every table row; compiled tags::* / uids::* constants vs rows and table comments; SOP class registry by_uid/by_keyword for every row of SOP_CLASSES and every documented SOP class constant"
        } else {
            "by_tag over all 65 536 elements of every group that has a table entry (±neighbours), all 60xx/50xx/7Fxx groups and 512 random groups, plus all 65 536 groups for ~250 sampled elements (all repeating elements, private creator and group length boundaries), vs a reference painted per group from the parsed tags.rs; by_name for every table row; compiled tags::* / uids::* constants vs rows and table comments; SOP class registry by_uid/by_keyword for every row"
        },
    );
    o.exhaustive = exhaustive && !timed_out.load(Ordering::Relaxed);
    o.min_evaluations = if exhaustive { 1u64 << 32 } else { 50_000_000 };
    o.min_classes = 100;
    o
}
