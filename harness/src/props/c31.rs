//! C31 — a command set built from any command elements records in (0000,0000) exactly the
//! number of bytes the remaining command elements occupy in Implicit VR Little Endian.

use crate::gen::ds::{gen_value, DsOpts};
use crate::report::*;
use crate::rng::Rng;
use dicom_core::{DataElement, Tag, VR};
use dicom_object::InMemDicomObject;
use dicom_transfer_syntax_registry::entries;
use serde_json::json;
use std::collections::BTreeMap;
use std::time::Duration;

/// command elements of the DIMSE dictionary by VR (PS3.7 Annex E)
const CMD: [(u16, VR); 22] = [
    (0x0002, VR::UI), (0x0003, VR::UI), (0x0100, VR::US), (0x0110, VR::US), (0x0120, VR::US), (0x0600, VR::AE),
    (0x0700, VR::US), (0x0800, VR::US), (0x0900, VR::US), (0x0901, VR::AT), (0x0902, VR::LO), (0x0903, VR::US),
    (0x1000, VR::UI), (0x1001, VR::UI), (0x1002, VR::US), (0x1005, VR::AT), (0x1008, VR::US), (0x1020, VR::US),
    (0x1021, VR::US), (0x1022, VR::US), (0x1030, VR::AE), (0x1031, VR::US),
];

pub fn run(cfg: &Cfg) -> Outcome {
    let ts = entries::IMPLICIT_VR_LITTLE_ENDIAN.erased();
    let n = cfg.n(100_000, 3_000_000);
    let local = run_parallel(
        cfg,
        31,
        RunLimits { cases: n, wall: Duration::from_secs(if cfg.thorough() { 600 } else { 60 }) },
        |l: &mut Local, rng: &mut Rng, idx: u64| {
            let mut o = DsOpts::default();
            o.big = false;
            o.typed = false;
            let mut map: BTreeMap<u16, DataElement<InMemDicomObject>> = BTreeMap::new();
            let mut desc = Vec::new();
            for _ in 0..rng.urange(0, 12) {
                let (el, vr) = *rng.pick(&CMD);
                // UL elements too (e.g. a stale group length supplied by the caller is replaced)
                let vr = if rng.chance(1, 12) { VR::UL } else { vr };
                let g = gen_value(rng, vr, &o);
                let Some(mut p) = g.to_primitive() else { continue };
                // single text values also in the `Str` representation (what `PrimitiveValue::from(&str)`
                // builds), whose reported length is not padded to even
                let mut repr = "list";
                if let dicom_core::PrimitiveValue::Strs(v) = &p {
                    if v.len() == 1 && rng.bool() {
                        p = dicom_core::PrimitiveValue::Str(v[0].clone());
                        repr = "single";
                    }
                }
                l.class(format!("{}|m{}|odd{}|{}", vr, g.multiplicity().min(3), crate::refenc::value_bytes(&g, false).len() % 2, repr));
                desc.push(json!({"tag": format!("0000{:04X}", el), "vr": vr.to_string(), "value": format!("{:?}", p).chars().take(80).collect::<String>()}));
                map.insert(el, DataElement::new(Tag(0, el), vr, p));
            }
            // elements of other groups mixed in must not be counted
            let mut others = Vec::new();
            if rng.chance(1, 4) {
                others.push(DataElement::new(Tag(0x0008, 0x0018), VR::UI, dicom_core::PrimitiveValue::from("1.2.3.4")));
                others.push(DataElement::new(Tag(0x0010, 0x0010), VR::PN, dicom_core::PrimitiveValue::from("Doe^John")));
            }
            // a caller-supplied (0000,0000) must be superseded
            let stale = rng.chance(1, 6);
            let mut elems: Vec<_> = map.into_values().collect();
            if stale {
                elems.push(DataElement::new(Tag(0, 0), VR::UL, dicom_core::PrimitiveValue::from(12345u32)));
            }
            let n_other = others.len();
            elems.extend(others);
            rng.shuffle(&mut elems);
            let replay = json!({"seed": cfg.seed, "stream": 31, "case": idx, "elements": desc, "other_group_elements": n_other, "stale_group_length": stale});
            l.eval();
            let obj = match guarded(|| InMemDicomObject::command_from_element_iter(elems.clone())) {
                Ok(o) => o,
                Err(p) => { l.violation(format!("build|panic|{}", panic_loc(&p)), p, replay); return; }
            };
            let mut bytes = Vec::new();
            if let Err(e) = obj.write_dataset_with_ts(&mut bytes, &ts) {
                l.violation("write|error", err_chain(&e), replay);
                return;
            }
            // own walk of the implicit VR stream
            if bytes.len() < 12 || bytes[0..8] != [0, 0, 0, 0, 4, 0, 0, 0] {
                l.violation("layout|first-element", format!("stream does not start with (0000,0000) of length 4: {}", hex_short(&bytes, 16)), replay);
                return;
            }
            let declared = u32::from_le_bytes([bytes[8], bytes[9], bytes[10], bytes[11]]) as usize;
            let mut off = 12;
            let mut group0 = 0usize;
            while off + 8 <= bytes.len() {
                let g = u16::from_le_bytes([bytes[off], bytes[off + 1]]);
                let len = u32::from_le_bytes([bytes[off + 4], bytes[off + 5], bytes[off + 6], bytes[off + 7]]) as usize;
                if g == 0 { group0 += 8 + len; }
                off += 8 + len;
            }
            if off != bytes.len() {
                l.violation("layout|walk", "element walk does not end at the end of the stream".to_string(), replay);
                return;
            }
            if declared != group0 {
                let kind = if n_other > 0 { "with-other-groups" } else if stale { "stale-length-supplied" } else { "plain" };
                l.violation(format!("group-length|{}", kind), format!("Command Group Length is {} but the remaining command elements occupy {} bytes", declared, group0), replay);
            }
            if l.want_sample() && idx % 997 == 0 {
                l.sample(json!({"case": idx, "declared": declared, "measured": group0, "stream": hex_short(&bytes, 120)}));
            }
        },
    );
    let mut o = Outcome::new(local, "random command sets (0-12 elements of group 0000 with UI/US/UL/AE/LO/AT values of random length and multiplicity, text both as single `Str` and as `Strs` lists, occasionally a stale caller-supplied (0000,0000) and elements of other groups mixed in, shuffled) built with command_from_element_iter and written in Implicit VR LE; the value of (0000,0000) must equal the bytes occupied by the other group-0000 elements, measured by the harness' own walk of the stream; class = (VR, multiplicity, parity)");
    o.min_evaluations = 10_000;
    o.min_classes = 20;
    o
}
