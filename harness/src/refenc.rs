//! Independent PS3.5 reference encoder (written from the standard, shares no code with
//! dicom-rs' encoders). Encodes an abstract `GDataset` in one of the three uncompressed
//! transfer syntaxes, with explicit or undefined sequence/item lengths.

use crate::gen::tree::*;
use dicom_core::VR;

#[derive(Clone, Copy, Debug, PartialEq, Eq, Hash)]
pub enum Ts {
    ImplicitLe,
    ExplicitLe,
    ExplicitBe,
}

impl Ts {
    pub const ALL: [Ts; 3] = [Ts::ImplicitLe, Ts::ExplicitLe, Ts::ExplicitBe];
    pub fn uid(self) -> &'static str {
        match self {
            Ts::ImplicitLe => "1.2.840.10008.1.2",
            Ts::ExplicitLe => "1.2.840.10008.1.2.1",
            Ts::ExplicitBe => "1.2.840.10008.1.2.2",
        }
    }
    pub fn name(self) -> &'static str {
        match self {
            Ts::ImplicitLe => "ImplicitLE",
            Ts::ExplicitLe => "ExplicitLE",
            Ts::ExplicitBe => "ExplicitBE",
        }
    }
    pub fn big(self) -> bool {
        self == Ts::ExplicitBe
    }
    pub fn explicit(self) -> bool {
        self != Ts::ImplicitLe
    }
}

/// PS3.5 Table 7.1-2: VRs whose explicit header uses a 16-bit length.
pub fn short_form(vr: VR) -> bool {
    matches!(
        vr,
        VR::AE
            | VR::AS
            | VR::AT
            | VR::CS
            | VR::DA
            | VR::DS
            | VR::DT
            | VR::FL
            | VR::FD
            | VR::IS
            | VR::LO
            | VR::LT
            | VR::PN
            | VR::SH
            | VR::SL
            | VR::SS
            | VR::ST
            | VR::TM
            | VR::UI
            | VR::UL
            | VR::US
    )
}

/// Pad byte for an odd-length value of this VR.
pub fn pad_byte(vr: VR) -> u8 {
    match vr {
        VR::AE
        | VR::AS
        | VR::CS
        | VR::DA
        | VR::DS
        | VR::DT
        | VR::IS
        | VR::LO
        | VR::LT
        | VR::PN
        | VR::SH
        | VR::ST
        | VR::TM
        | VR::UC
        | VR::UR
        | VR::UT => b' ',
        _ => 0,
    }
}

#[derive(Clone, Copy, Debug, PartialEq, Eq)]
pub enum LenMode {
    /// every sequence and item with undefined length
    AllUndefined,
    /// follow the `explicit` marks in the tree
    AsMarked,
    /// every sequence and item with explicit length
    AllExplicit,
}

fn p16(out: &mut Vec<u8>, v: u16, big: bool) {
    if big {
        out.extend_from_slice(&v.to_be_bytes())
    } else {
        out.extend_from_slice(&v.to_le_bytes())
    }
}
fn p32(out: &mut Vec<u8>, v: u32, big: bool) {
    if big {
        out.extend_from_slice(&v.to_be_bytes())
    } else {
        out.extend_from_slice(&v.to_le_bytes())
    }
}
fn p64(out: &mut Vec<u8>, v: u64, big: bool) {
    if big {
        out.extend_from_slice(&v.to_be_bytes())
    } else {
        out.extend_from_slice(&v.to_le_bytes())
    }
}

/// Unpadded value bytes of a primitive (non-SQ, non-Pix) value.
pub fn value_bytes(val: &GVal, big: bool) -> Vec<u8> {
    let mut o = Vec::new();
    let join = |v: Vec<String>| v.join("\\").into_bytes();
    match val {
        GVal::Empty => {}
        GVal::Strs(v) => o = join(v.clone()),
        GVal::Str(s) => o = s.clone().into_bytes(),
        GVal::Tags(v) => {
            for t in v {
                p16(&mut o, t.0, big);
                p16(&mut o, t.1, big);
            }
        }
        GVal::U8(v) => o = v.clone(),
        GVal::I16(v) => v.iter().for_each(|x| p16(&mut o, *x as u16, big)),
        GVal::U16(v) => v.iter().for_each(|x| p16(&mut o, *x, big)),
        GVal::I32(v) => v.iter().for_each(|x| p32(&mut o, *x as u32, big)),
        GVal::U32(v) => v.iter().for_each(|x| p32(&mut o, *x, big)),
        GVal::I64(v) => v.iter().for_each(|x| p64(&mut o, *x as u64, big)),
        GVal::U64(v) => v.iter().for_each(|x| p64(&mut o, *x, big)),
        GVal::F32(v) => v.iter().for_each(|x| p32(&mut o, x.to_bits(), big)),
        GVal::F64(v) => v.iter().for_each(|x| p64(&mut o, x.to_bits(), big)),
        GVal::Date(v) => o = join(v.iter().map(|d| d.text()).collect()),
        GVal::Time(v) => o = join(v.iter().map(|d| d.text()).collect()),
        GVal::DateTime(v) => o = join(v.iter().map(|d| d.text()).collect()),
        GVal::Seq(_) | GVal::Pix { .. } => unreachable!(),
    }
    o
}

/// Unpadded value bytes taking the VR into account (IS/DS given as numbers are text).
pub fn elem_value_bytes(e: &GElem, big: bool) -> Vec<u8> {
    match (&e.val, e.vr) {
        (GVal::I32(v), VR::IS) => v
            .iter()
            .map(|x| x.to_string())
            .collect::<Vec<_>>()
            .join("\\")
            .into_bytes(),
        (GVal::F64(v), VR::DS) => v
            .iter()
            .map(|x| format!("{}", x))
            .collect::<Vec<_>>()
            .join("\\")
            .into_bytes(),
        _ => value_bytes(&e.val, big),
    }
}

pub fn padded(mut v: Vec<u8>, vr: VR) -> Vec<u8> {
    if v.len() % 2 == 1 {
        v.push(pad_byte(vr));
    }
    v
}

fn header(out: &mut Vec<u8>, tag: (u16, u16), vr: VR, len: u32, ts: Ts) {
    let big = ts.big();
    p16(out, tag.0, big);
    p16(out, tag.1, big);
    if ts.explicit() {
        out.extend_from_slice(vr.to_string().as_bytes());
        if short_form(vr) {
            assert!(len <= 0xFFFF, "reference encoder: value too long for 16-bit form");
            p16(out, len as u16, big);
        } else {
            out.extend_from_slice(&[0, 0]);
            p32(out, len, big);
        }
    } else {
        p32(out, len, big);
    }
}

/// PS3.5 §7.1 layout of an element header; `None` when `len` cannot be expressed
/// (16-bit form and len > 0xFFFF).
pub fn header_bytes(tag: (u16, u16), vr: VR, len: u32, ts: Ts) -> Option<Vec<u8>> {
    if ts.explicit() && short_form(vr) && len > 0xFFFF {
        return None;
    }
    let mut o = Vec::new();
    header(&mut o, tag, vr, len, ts);
    Some(o)
}

/// Item (E000), item delimiter (E00D) or sequence delimiter (E0DD) header.
pub fn item_bytes(el: u16, len: u32, ts: Ts) -> Vec<u8> {
    let mut o = Vec::new();
    item_tag(&mut o, el, len, ts.big());
    o
}

fn item_tag(out: &mut Vec<u8>, el: u16, len: u32, big: bool) {
    p16(out, 0xFFFE, big);
    p16(out, el, big);
    p32(out, len, big);
}

/// Position record of one top-level-or-nested element in the produced stream.
#[derive(Clone, Debug)]
pub struct Pos {
    pub path: String,
    pub tag: (u16, u16),
    pub vr: VR,
    pub header_at: usize,
    pub value_at: usize,
    /// declared length (0xFFFFFFFF = undefined)
    pub len: u32,
    /// unpadded byte length of the value for primitives
    pub unpadded: Option<usize>,
}

pub struct Encoded {
    pub bytes: Vec<u8>,
    pub pos: Vec<Pos>,
}

pub fn encode(ds: &[GElem], ts: Ts, mode: LenMode) -> Encoded {
    encode_odd(ds, ts, mode, &OddOpts::default())
}

/// Deliberately non-conformant encoding (C07): the elements whose path is listed keep an odd
/// declared length (no padding); with `trailing_pad` one extra pad byte follows the declared
/// bytes (what a reader using the "next even" strategy expects).
#[derive(Default, Clone, Debug)]
pub struct OddOpts {
    pub paths: std::collections::HashSet<String>,
    pub trailing_pad: bool,
    /// explicit-length items and sequences declare the *sum of the declared lengths* of their
    /// content when exactly one uncounted pad byte lies underneath (declared = actual - 1, an odd
    /// item/sequence length that the "next even" strategy rounds up to the actual size)
    pub decl_sum: bool,
    /// pixel fragments of odd size keep their odd declared length (pad byte follows with
    /// `trailing_pad`)
    pub frag_odd: bool,
}

pub fn encode_odd(ds: &[GElem], ts: Ts, mode: LenMode, odd: &OddOpts) -> Encoded {
    let mut e = Encoded {
        bytes: Vec::new(),
        pos: Vec::new(),
    };
    enc_ds(ds, ts, mode, &mut e, "", odd);
    e
}

/// Returns the number of pad bytes written that no declared length accounts for.
fn enc_ds(ds: &[GElem], ts: Ts, mode: LenMode, e: &mut Encoded, path: &str, odd: &OddOpts) -> usize {
    let big = ts.big();
    let mut uncounted = 0usize;
    for el in ds {
        let p = format!("{}{:04X}{:04X}", path, el.tag.0, el.tag.1);
        match &el.val {
            GVal::Seq(s) => {
                let explicit = match mode {
                    LenMode::AllUndefined => false,
                    LenMode::AllExplicit => true,
                    LenMode::AsMarked => s.explicit,
                };
                // encode the content first
                let mut seq_unc = 0usize;
                let mut inner = Encoded {
                    bytes: Vec::new(),
                    pos: Vec::new(),
                };
                for (i, it) in s.items.iter().enumerate() {
                    let it_explicit = match mode {
                        LenMode::AllUndefined => false,
                        LenMode::AllExplicit => true,
                        LenMode::AsMarked => it.explicit,
                    };
                    let mut body = Encoded {
                        bytes: Vec::new(),
                        pos: Vec::new(),
                    };
                    let unc = enc_ds(&it.elems, ts, mode, &mut body, &format!("{}[{}].", p, i), odd);
                    seq_unc += unc;
                    let base = inner.bytes.len() + 8;
                    if it_explicit {
                        let adj = if odd.decl_sum && unc == 1 { 1 } else { 0 };
                        item_tag(&mut inner.bytes, 0xE000, (body.bytes.len() - adj) as u32, big);
                        inner.bytes.extend_from_slice(&body.bytes);
                    } else {
                        item_tag(&mut inner.bytes, 0xE000, 0xFFFF_FFFF, big);
                        inner.bytes.extend_from_slice(&body.bytes);
                        item_tag(&mut inner.bytes, 0xE00D, 0, big);
                    }
                    for mut q in body.pos {
                        q.header_at += base;
                        q.value_at += base;
                        inner.pos.push(q);
                    }
                }
                let header_at = e.bytes.len();
                uncounted += seq_unc;
                let len = if explicit {
                    (inner.bytes.len() - if odd.decl_sum && seq_unc == 1 { 1 } else { 0 }) as u32
                } else {
                    0xFFFF_FFFF
                };
                header(&mut e.bytes, el.tag, VR::SQ, len, ts);
                let value_at = e.bytes.len();
                e.pos.push(Pos {
                    path: p.clone(),
                    tag: el.tag,
                    vr: VR::SQ,
                    header_at,
                    value_at,
                    len,
                    unpadded: None,
                });
                e.bytes.extend_from_slice(&inner.bytes);
                for mut q in inner.pos {
                    q.header_at += value_at;
                    q.value_at += value_at;
                    e.pos.push(q);
                }
                if !explicit {
                    item_tag(&mut e.bytes, 0xE0DD, 0, big);
                }
            }
            GVal::Pix { bot, frags } => {
                let header_at = e.bytes.len();
                header(&mut e.bytes, el.tag, el.vr, 0xFFFF_FFFF, ts);
                let value_at = e.bytes.len();
                e.pos.push(Pos {
                    path: p.clone(),
                    tag: el.tag,
                    vr: el.vr,
                    header_at,
                    value_at,
                    len: 0xFFFF_FFFF,
                    unpadded: None,
                });
                item_tag(&mut e.bytes, 0xE000, 4 * bot.len() as u32, big);
                for b in bot {
                    p32(&mut e.bytes, *b, big);
                }
                for f in frags {
                    let mut f = f.clone();
                    if f.len() % 2 == 1 && odd.frag_odd {
                        item_tag(&mut e.bytes, 0xE000, f.len() as u32, big);
                        e.bytes.extend_from_slice(&f);
                        if odd.trailing_pad {
                            e.bytes.push(0);
                            uncounted += 1;
                        }
                        continue;
                    }
                    if f.len() % 2 == 1 {
                        f.push(0);
                    }
                    item_tag(&mut e.bytes, 0xE000, f.len() as u32, big);
                    e.bytes.extend_from_slice(&f);
                }
                item_tag(&mut e.bytes, 0xE0DD, 0, big);
            }
            _ => {
                let raw = elem_value_bytes(el, big);
                let unpadded = raw.len();
                if odd.paths.contains(&p) && unpadded % 2 == 1 {
                    let header_at = e.bytes.len();
                    header(&mut e.bytes, el.tag, el.vr, unpadded as u32, ts);
                    let value_at = e.bytes.len();
                    e.pos.push(Pos {
                        path: p,
                        tag: el.tag,
                        vr: el.vr,
                        header_at,
                        value_at,
                        len: unpadded as u32,
                        unpadded: Some(unpadded),
                    });
                    e.bytes.extend_from_slice(&raw);
                    if odd.trailing_pad {
                        e.bytes.push(pad_byte(el.vr));
                        uncounted += 1;
                    }
                    continue;
                }
                let v = padded(raw, el.vr);
                let header_at = e.bytes.len();
                header(&mut e.bytes, el.tag, el.vr, v.len() as u32, ts);
                let value_at = e.bytes.len();
                e.pos.push(Pos {
                    path: p,
                    tag: el.tag,
                    vr: el.vr,
                    header_at,
                    value_at,
                    len: v.len() as u32,
                    unpadded: Some(unpadded),
                });
                e.bytes.extend_from_slice(&v);
            }
        }
    }
    uncounted
}
