//! G-IMG — image generator shared by the pixel-data properties (C18–C22, C35).
//!
//! A [`GImg`] is an abstract image: geometry, sample format and the *samples themselves* as a flat
//! `Vec<u16>` in DICOM order (frame, row, column, sample; planar configuration 0). Everything the
//! oracles need (native byte stream, 1-bit packing, per-frame slices, interpreted values) is
//! derived here from that vector with code that does not call dicom-rs; only [`GImg::to_file_object`]
//! touches dicom-rs, to wrap the image as a `FileDicomObject` with a proper file meta table.
//!
//! Sample conventions
//! * `bits_allocated` 8/16: every sample is the full allocated word as stored in Pixel Data
//!   (bits above the high bit may hold garbage when `garbage_high_bits` was requested).
//! * `bits_allocated` 1: every sample is 0 or 1 (single sample per pixel only).

use crate::rng::Rng;
use dicom_core::value::{PixelFragmentSequence, PrimitiveValue};
use dicom_core::{DataElement, Length, Tag, VR};
use dicom_object::meta::FileMetaTableBuilder;
use dicom_object::{FileDicomObject, InMemDicomObject};
use serde_json::{json, Value};

pub const TS_EXPLICIT_LE: &str = "1.2.840.10008.1.2.1";
pub const TS_IMPLICIT_LE: &str = "1.2.840.10008.1.2";
pub const TS_EXPLICIT_BE: &str = "1.2.840.10008.1.2.2";
pub const TS_DEFLATED_LE: &str = "1.2.840.10008.1.2.1.99";
pub const TS_RLE: &str = "1.2.840.10008.1.2.5";
pub const TS_ENCAP_UNCOMPRESSED: &str = "1.2.840.10008.1.2.1.98";
pub const TS_DEFLATED_FRAME: &str = "1.2.840.10008.1.2.8.1";
pub const TS_JPEG_BASELINE: &str = "1.2.840.10008.1.2.4.50";

/// Secondary Capture Image Storage / Multi-frame Grayscale Word SC / Multi-frame True Color SC
const SOP_SC: &str = "1.2.840.10008.5.1.4.1.1.7";
const SOP_MF_BYTE: &str = "1.2.840.10008.5.1.4.1.1.7.2";
const SOP_MF_WORD: &str = "1.2.840.10008.5.1.4.1.1.7.3";
const SOP_MF_COLOR: &str = "1.2.840.10008.5.1.4.1.1.7.4";
const SOP_MF_BIT: &str = "1.2.840.10008.5.1.4.1.1.7.1";

#[derive(Clone, Debug, PartialEq)]
pub enum Fill {
    Random,
    Ramp,
    /// every stored value of the `bits_stored`-bit range appears (C22)
    AllValues,
}

/// In-memory representation of a native Pixel Data value.
#[derive(Clone, Copy, Debug, PartialEq)]
pub enum PxRepr {
    /// VR OB, bytes
    ObBytes,
    /// VR OW, value held as bytes (little-endian stream)
    OwBytes,
    /// VR OW, value held as 16-bit words
    OwWords,
}

impl PxRepr {
    pub fn name(self) -> &'static str {
        match self {
            PxRepr::ObBytes => "OB/bytes",
            PxRepr::OwBytes => "OW/bytes",
            PxRepr::OwWords => "OW/words",
        }
    }
}

#[derive(Clone, Debug)]
pub struct GImg {
    pub rows: u16,
    pub cols: u16,
    pub frames: u32,
    /// samples per pixel: 1 or 3
    pub spp: u16,
    pub bits_allocated: u16,
    pub bits_stored: u16,
    pub signed: bool,
    /// MONOCHROME1 / MONOCHROME2 / RGB
    pub photometric: &'static str,
    pub fill: Fill,
    /// flat samples: frames × rows × cols × spp
    pub samples: Vec<u16>,
    /// emit (0028,0008) even for a single frame
    pub explicit_number_of_frames: bool,
}

/// Options for the random generator. The defaults are the G-IMG space of DESIGN.md §2.1.
#[derive(Clone, Debug)]
pub struct ImgOpts {
    pub allow_1bit: bool,
    pub allow_8bit: bool,
    pub allow_16bit: bool,
    pub allow_rgb: bool,
    pub allow_signed: bool,
    /// bits stored may be smaller than bits allocated
    pub allow_partial_bits: bool,
    /// fill bits above the high bit with random garbage (only meaningful with partial bits)
    pub garbage_high_bits: bool,
    pub max_dim: u16,
    pub max_frames: u32,
    /// 1 in `bigger_one_in` images gets one dimension in 18..=64
    pub bigger_one_in: u64,
    /// samples are made byte-asymmetric (hi byte != lo byte, no two equal neighbouring bytes)
    pub byte_asymmetric: bool,
}

impl Default for ImgOpts {
    fn default() -> Self {
        ImgOpts {
            allow_1bit: true,
            allow_8bit: true,
            allow_16bit: true,
            allow_rgb: true,
            allow_signed: true,
            allow_partial_bits: true,
            garbage_high_bits: false,
            max_dim: 17,
            max_frames: 7,
            bigger_one_in: 24,
            byte_asymmetric: false,
        }
    }
}

impl ImgOpts {
    /// 8/16 bits allocated only (what the encoders and RLE accept)
    pub fn no_1bit() -> Self {
        ImgOpts {
            allow_1bit: false,
            ..Default::default()
        }
    }
}

pub fn gen_image(rng: &mut Rng, o: &ImgOpts) -> GImg {
    let mut allocs: Vec<u16> = Vec::new();
    if o.allow_1bit {
        allocs.push(1);
    }
    if o.allow_8bit {
        allocs.push(8);
        allocs.push(8);
    }
    if o.allow_16bit {
        allocs.push(16);
        allocs.push(16);
    }
    let bits_allocated = *rng.pick(&allocs);
    let spp: u16 = if bits_allocated != 1 && o.allow_rgb && rng.chance(1, 3) { 3 } else { 1 };
    let mut rows = rng.range(1, o.max_dim as i64) as u16;
    let mut cols = rng.range(1, o.max_dim as i64) as u16;
    if o.bigger_one_in > 0 && rng.chance(1, o.bigger_one_in) {
        if rng.bool() {
            rows = rng.range(18, 64) as u16;
        } else {
            cols = rng.range(18, 64) as u16;
        }
    }
    // favour odd frame sizes half of the time
    if rng.bool() {
        rows |= 1;
        cols |= 1;
    }
    let frames = if rng.chance(1, 3) { 1 } else { rng.range(2, o.max_frames.max(2) as i64) as u32 };
    let bits_stored = if bits_allocated == 1 {
        1
    } else if o.allow_partial_bits && spp == 1 && rng.chance(1, 2) {
        rng.range(1, bits_allocated as i64) as u16
    } else {
        bits_allocated
    };
    let signed = bits_allocated != 1 && spp == 1 && o.allow_signed && rng.chance(1, 3);
    let photometric = if spp == 3 {
        "RGB"
    } else if rng.chance(1, 4) {
        "MONOCHROME1"
    } else {
        "MONOCHROME2"
    };
    let fill = if rng.chance(1, 4) { Fill::Ramp } else { Fill::Random };
    let n = frames as usize * rows as usize * cols as usize * spp as usize;
    let mut samples = Vec::with_capacity(n);
    let mask: u32 = if bits_stored >= 16 { 0xFFFF } else { (1u32 << bits_stored) - 1 };
    let alloc_mask: u32 = if bits_allocated == 16 { 0xFFFF } else if bits_allocated == 8 { 0xFF } else { 1 };
    let start = rng.below(65536) as u32;
    for i in 0..n {
        let mut v = match fill {
            Fill::Ramp => (start + i as u32 * 3) & mask,
            _ => rng.next_u32() & mask,
        };
        if o.garbage_high_bits && bits_stored < bits_allocated {
            v |= rng.next_u32() & alloc_mask & !mask;
        }
        if o.byte_asymmetric && bits_allocated == 16 && bits_stored == 16 {
            // high byte and low byte differ, so a byte swap is always visible
            if (v >> 8) == (v & 0xFF) {
                v ^= 0x0100;
            }
        }
        samples.push(v as u16);
    }
    if o.byte_asymmetric && bits_allocated == 8 && bits_stored == 8 {
        // no two equal neighbours, so a shift by one byte is always visible
        for i in 1..n {
            if samples[i] == samples[i - 1] {
                samples[i] = (samples[i] + 1 + (i as u16 % 5)) & 0xFF;
                if samples[i] == samples[i - 1] {
                    samples[i] = (samples[i] + 1) & 0xFF;
                }
            }
        }
    }
    GImg {
        rows,
        cols,
        frames,
        spp,
        bits_allocated,
        bits_stored,
        signed,
        photometric,
        fill,
        samples,
        explicit_number_of_frames: frames > 1 || rng.bool(),
    }
}

/// Image holding every stored value of a `bits_stored`-bit sample exactly once in its first
/// 2^bits_stored samples (ascending raw value), bits above the high bit filled with garbage.
pub fn all_values_image(rng: &mut Rng, bits_allocated: u16, bits_stored: u16, signed: bool, garbage: bool) -> GImg {
    assert!(bits_allocated == 8 || bits_allocated == 16);
    assert!(bits_stored >= 1 && bits_stored <= bits_allocated);
    let n = 1usize << bits_stored;
    // rows × cols ≥ n with cols ≤ 256
    let cols: usize = n.min(256);
    let rows: usize = n.div_ceil(cols);
    let mask: u32 = (1u32 << bits_stored) - 1;
    let alloc_mask: u32 = if bits_allocated == 16 { 0xFFFF } else { 0xFF };
    let mut samples = Vec::with_capacity(rows * cols);
    for i in 0..rows * cols {
        let mut v = (i as u32) & mask;
        if garbage {
            v |= rng.next_u32() & alloc_mask & !mask;
        }
        samples.push(v as u16);
    }
    GImg {
        rows: rows as u16,
        cols: cols as u16,
        frames: 1,
        spp: 1,
        bits_allocated,
        bits_stored,
        signed,
        photometric: "MONOCHROME2",
        fill: Fill::AllValues,
        samples,
        explicit_number_of_frames: false,
    }
}

impl GImg {
    pub fn frame_samples(&self) -> usize {
        self.rows as usize * self.cols as usize * self.spp as usize
    }

    pub fn bytes_per_sample(&self) -> usize {
        if self.bits_allocated == 16 {
            2
        } else {
            1
        }
    }

    /// Native frame size in bytes for 8/16 bits allocated.
    pub fn frame_bytes(&self) -> usize {
        assert!(self.bits_allocated != 1);
        self.frame_samples() * self.bytes_per_sample()
    }

    /// Samples of frame `f`.
    pub fn frame(&self, f: u32) -> &[u16] {
        let n = self.frame_samples();
        &self.samples[f as usize * n..(f as usize + 1) * n]
    }

    /// The native (little-endian, pixel-interleaved) byte stream of all frames, *unpadded*.
    /// 1-bit images: bits packed LSB-first, continuously across frame boundaries (PS3.5 8.1.1/8.2).
    pub fn native_bytes(&self) -> Vec<u8> {
        match self.bits_allocated {
            1 => {
                let mut out = vec![0u8; self.samples.len().div_ceil(8)];
                for (k, s) in self.samples.iter().enumerate() {
                    if *s & 1 == 1 {
                        out[k / 8] |= 1 << (k % 8);
                    }
                }
                out
            }
            8 => self.samples.iter().map(|s| *s as u8).collect(),
            _ => {
                let mut out = Vec::with_capacity(self.samples.len() * 2);
                for s in &self.samples {
                    out.push((*s & 0xFF) as u8);
                    out.push((*s >> 8) as u8);
                }
                out
            }
        }
    }

    /// Native bytes of one frame (8/16 bits allocated).
    pub fn frame_native_bytes(&self, f: u32) -> Vec<u8> {
        let fb = self.frame_bytes();
        self.native_bytes()[f as usize * fb..(f as usize + 1) * fb].to_vec()
    }

    /// What a decoder has to produce for the whole image: the native bytes for 8/16 bits, and one
    /// byte 0/255 per sample for 1-bit images.
    pub fn expected_decoded(&self) -> Vec<u8> {
        if self.bits_allocated == 1 {
            self.samples.iter().map(|s| if *s & 1 == 1 { 255 } else { 0 }).collect()
        } else {
            self.native_bytes()
        }
    }

    /// Expected decoded bytes of one frame.
    pub fn expected_decoded_frame(&self, f: u32) -> Vec<u8> {
        let per = if self.bits_allocated == 1 { self.frame_samples() } else { self.frame_bytes() };
        self.expected_decoded()[f as usize * per..(f as usize + 1) * per].to_vec()
    }

    /// Interpreted value of a stored sample: bits above the high bit ignored, two's complement
    /// over `bits_stored` bits when signed.
    pub fn interpret(&self, raw: u16) -> i32 {
        interpret(raw, self.bits_stored, self.signed)
    }

    pub fn class(&self) -> String {
        format!(
            "a{}|s{}|{}|spp{}|f{}|{}|{}",
            self.bits_allocated,
            self.bits_stored,
            if self.signed { "signed" } else { "unsigned" },
            self.spp,
            match self.frames {
                1 => "1",
                2..=3 => "2-3",
                _ => "4+",
            },
            if (self.frame_samples() * if self.bits_allocated == 16 { 2 } else { 1 }) % 2 == 1
                || (self.bits_allocated == 1 && self.frame_samples() % 8 != 0)
            {
                "oddframe"
            } else {
                "evenframe"
            },
            match self.fill {
                Fill::Random => "rand",
                Fill::Ramp => "ramp",
                Fill::AllValues => "all",
            }
        )
    }

    pub fn describe(&self) -> Value {
        let max = 4096;
        json!({
            "rows": self.rows, "cols": self.cols, "frames": self.frames, "samples_per_pixel": self.spp,
            "bits_allocated": self.bits_allocated, "bits_stored": self.bits_stored,
            "pixel_representation": if self.signed {1} else {0},
            "photometric": self.photometric,
            "explicit_number_of_frames": self.explicit_number_of_frames,
            "native_pixel_bytes_hex": crate::report::hex_short(&self.native_bytes(), max),
        })
    }

    /// Image attributes (no pixel data) as an in-memory object.
    pub fn base_object(&self) -> InMemDicomObject {
        let mut o = InMemDicomObject::new_empty();
        let sop_class = if self.frames == 1 && !self.explicit_number_of_frames {
            SOP_SC
        } else if self.bits_allocated == 1 {
            SOP_MF_BIT
        } else if self.spp == 3 {
            SOP_MF_COLOR
        } else if self.bits_allocated == 8 {
            SOP_MF_BYTE
        } else {
            SOP_MF_WORD
        };
        let put_str = |o: &mut InMemDicomObject, t: Tag, vr: VR, s: &str| {
            o.put(DataElement::new(t, vr, PrimitiveValue::from(s)));
        };
        let put_us = |o: &mut InMemDicomObject, t: Tag, v: u16| {
            o.put(DataElement::new(t, VR::US, PrimitiveValue::from(v)));
        };
        put_str(&mut o, Tag(0x0008, 0x0016), VR::UI, sop_class);
        put_str(&mut o, Tag(0x0008, 0x0018), VR::UI, "1.2.826.0.1.3680043.8.498.1");
        put_str(&mut o, Tag(0x0008, 0x0060), VR::CS, "OT");
        put_us(&mut o, Tag(0x0028, 0x0002), self.spp);
        put_str(&mut o, Tag(0x0028, 0x0004), VR::CS, self.photometric);
        if self.spp == 3 {
            put_us(&mut o, Tag(0x0028, 0x0006), 0);
        }
        if self.explicit_number_of_frames {
            put_str(&mut o, Tag(0x0028, 0x0008), VR::IS, &self.frames.to_string());
        }
        put_us(&mut o, Tag(0x0028, 0x0010), self.rows);
        put_us(&mut o, Tag(0x0028, 0x0011), self.cols);
        put_us(&mut o, Tag(0x0028, 0x0100), self.bits_allocated);
        put_us(&mut o, Tag(0x0028, 0x0101), self.bits_stored);
        put_us(&mut o, Tag(0x0028, 0x0102), self.bits_stored - 1);
        put_us(&mut o, Tag(0x0028, 0x0103), if self.signed { 1 } else { 0 });
        o
    }

    /// Native pixel data element: OB for ≤ 8 bits allocated, OW (typed U16 words) or OW carried as
    /// bytes for 16 bits. The value is exactly frames × frame size bytes (no pad byte; the
    /// writer adds it in the file).
    pub fn native_pixel_element(&self, ow_as_words: bool) -> DataElement<InMemDicomObject> {
        let bytes = self.native_bytes();
        if self.bits_allocated == 16 {
            if ow_as_words {
                let words: Vec<u16> = self.samples.clone();
                DataElement::new(Tag(0x7FE0, 0x0010), VR::OW, PrimitiveValue::U16(words.into()))
            } else {
                DataElement::new(Tag(0x7FE0, 0x0010), VR::OW, PrimitiveValue::U8(bytes.into()))
            }
        } else {
            DataElement::new(Tag(0x7FE0, 0x0010), VR::OB, PrimitiveValue::U8(bytes.into()))
        }
    }

    /// Native pixel data element in a chosen in-memory representation. All three are produced by
    /// dicom-rs itself: OB/U8 and OW/U16 by the reader, OW/U8 by the transcoder for 8-bit data.
    /// Representations that do not fit (odd byte count under OW, OB for 16 bits) fall back to the
    /// natural one; the representation actually used is returned.
    pub fn native_pixel_element_repr(&self, r: PxRepr) -> (DataElement<InMemDicomObject>, PxRepr) {
        let bytes = self.native_bytes();
        let t = Tag(0x7FE0, 0x0010);
        let r = match (self.bits_allocated, r) {
            (1, _) => PxRepr::ObBytes,
            (16, PxRepr::ObBytes) => PxRepr::OwBytes,
            (8, PxRepr::OwBytes) | (8, PxRepr::OwWords) if bytes.len() % 2 == 1 => PxRepr::ObBytes,
            (_, r) => r,
        };
        let e = match r {
            PxRepr::ObBytes => DataElement::new(t, VR::OB, PrimitiveValue::U8(bytes.into())),
            PxRepr::OwBytes => DataElement::new(t, VR::OW, PrimitiveValue::U8(bytes.into())),
            PxRepr::OwWords => {
                let words: Vec<u16> = bytes.chunks(2).map(|c| c[0] as u16 | (c[1] as u16) << 8).collect();
                DataElement::new(t, VR::OW, PrimitiveValue::U16(words.into()))
            }
        };
        (e, r)
    }

    /// The image as a native file object with the pixel data in representation `r`.
    pub fn to_file_object_repr(&self, ts_uid: &str, r: PxRepr) -> (FileDicomObject<InMemDicomObject>, PxRepr) {
        let mut o = self.base_object();
        let (e, r) = self.native_pixel_element_repr(r);
        o.put(e);
        (wrap(o, ts_uid), r)
    }

    /// The image as a native file object in transfer syntax `ts_uid` (one of the native ones).
    pub fn to_file_object(&self, ts_uid: &str, ow_as_words: bool) -> FileDicomObject<InMemDicomObject> {
        let mut o = self.base_object();
        o.put(self.native_pixel_element(ow_as_words));
        wrap(o, ts_uid)
    }

    /// The image attributes around a caller-supplied encapsulated pixel data value.
    pub fn to_encapsulated_object(
        &self,
        ts_uid: &str,
        offset_table: Vec<u32>,
        fragments: Vec<Vec<u8>>,
    ) -> FileDicomObject<InMemDicomObject> {
        let mut o = self.base_object();
        o.put(DataElement::new_with_len(
            Tag(0x7FE0, 0x0010),
            VR::OB,
            Length::UNDEFINED,
            PixelFragmentSequence::new(offset_table, fragments),
        ));
        wrap(o, ts_uid)
    }
}

pub fn interpret(raw: u16, bits_stored: u16, signed: bool) -> i32 {
    let mask: u32 = if bits_stored >= 16 { 0xFFFF } else { (1u32 << bits_stored) - 1 };
    let v = raw as u32 & mask;
    if signed && (v >> (bits_stored - 1)) & 1 == 1 {
        v as i32 - (1i32 << bits_stored)
    } else {
        v as i32
    }
}

/// Wrap a data set with a complete file meta group for `ts_uid`.
pub fn wrap(o: InMemDicomObject, ts_uid: &str) -> FileDicomObject<InMemDicomObject> {
    o.with_meta(
        FileMetaTableBuilder::new()
            .transfer_syntax(ts_uid)
            .implementation_class_uid("1.2.826.0.1.3680043.8.498.99")
            .implementation_version_name("DICOMVERIF"),
    )
    .expect("file meta table")
}

/// Write the object as a DICOM file into memory.
pub fn write_file(obj: &FileDicomObject<InMemDicomObject>) -> Result<Vec<u8>, String> {
    let mut out = Vec::new();
    obj.write_all(&mut out).map_err(|e| format!("{:?}", e))?;
    Ok(out)
}

/// Read a DICOM file from memory.
pub fn read_file(bytes: &[u8]) -> Result<FileDicomObject<InMemDicomObject>, String> {
    dicom_object::from_reader(bytes).map_err(|e| format!("{:?}", e))
}

#[cfg(test)]
mod tests {
    use super::*;

    #[test]
    fn bit_packing() {
        let g = GImg {
            rows: 1,
            cols: 5,
            frames: 2,
            spp: 1,
            bits_allocated: 1,
            bits_stored: 1,
            signed: false,
            photometric: "MONOCHROME2",
            fill: Fill::Random,
            samples: vec![1, 0, 0, 0, 0, 1, 0, 0, 0, 1],
            explicit_number_of_frames: true,
        };
        assert_eq!(g.native_bytes(), vec![0b0010_0001, 0b0000_0010]);
        assert_eq!(g.expected_decoded_frame(1), vec![255, 0, 0, 0, 255]);
    }

    #[test]
    fn interpret_values() {
        assert_eq!(interpret(0x3F, 6, true), -1);
        assert_eq!(interpret(0xFF, 6, true), -1);
        assert_eq!(interpret(0x20, 6, true), -32);
        assert_eq!(interpret(0x1F, 6, true), 31);
        assert_eq!(interpret(0xFFFF, 16, true), -1);
        assert_eq!(interpret(0xFFFF, 16, false), 65535);
        assert_eq!(interpret(0x8001, 1, false), 1);
    }
}
