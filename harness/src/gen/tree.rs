//! Abstract data-set description used by the generators.
//!
//! The description is independent of dicom-rs value types: the same tree is (a) turned into an
//! `InMemDicomObject` through the public API, (b) encoded by the harness' own PS3.5 reference
//! encoder (`refenc`), (c) exported as JSON for the Python oracles, and (d) used by the
//! comparator as the *expected* content after a round trip.

use dicom_core::header::Length;
use dicom_core::value::{
    DataSetSequence, DicomDate, DicomDateTime, DicomTime, PixelFragmentSequence, PrimitiveValue,
    Value, C,
};
use dicom_core::{DataElement, Tag, VR};
use dicom_object::mem::InMemElement;
use dicom_object::InMemDicomObject;
use serde_json::{json, Value as J};

#[derive(Clone, Debug, PartialEq)]
pub struct GDate {
    pub y: u16,
    pub m: Option<u8>,
    pub d: Option<u8>,
}

#[derive(Clone, Debug, PartialEq)]
pub struct GTime {
    pub h: u8,
    pub m: Option<u8>,
    pub s: Option<u8>,
    /// (fraction value, number of digits 1..=6)
    pub frac: Option<(u32, u8)>,
}

#[derive(Clone, Debug, PartialEq)]
pub struct GDateTime {
    pub date: GDate,
    pub time: Option<GTime>,
    /// offset in minutes east of UTC
    pub tz: Option<i32>,
}

impl GDate {
    pub fn text(&self) -> String {
        let mut s = format!("{:04}", self.y);
        if let Some(m) = self.m {
            s += &format!("{:02}", m);
            if let Some(d) = self.d {
                s += &format!("{:02}", d);
            }
        }
        s
    }
    pub fn to_dicom(&self) -> DicomDate {
        match (self.m, self.d) {
            (None, _) => DicomDate::from_y(self.y),
            (Some(m), None) => DicomDate::from_ym(self.y, m),
            (Some(m), Some(d)) => DicomDate::from_ymd(self.y, m, d),
        }
        .expect("generator produced an invalid date")
    }
}

impl GTime {
    pub fn text(&self) -> String {
        let mut s = format!("{:02}", self.h);
        if let Some(m) = self.m {
            s += &format!("{:02}", m);
            if let Some(sec) = self.s {
                s += &format!("{:02}", sec);
                if let Some((f, p)) = self.frac {
                    s += &format!(".{:0width$}", f, width = p as usize);
                }
            }
        }
        s
    }
    pub fn to_dicom(&self) -> DicomTime {
        match (self.m, self.s, self.frac) {
            (None, _, _) => DicomTime::from_h(self.h),
            (Some(m), None, _) => DicomTime::from_hm(self.h, m),
            (Some(m), Some(s), None) => DicomTime::from_hms(self.h, m, s),
            (Some(m), Some(s), Some((f, 3))) => DicomTime::from_hms_milli(self.h, m, s, f),
            (Some(m), Some(s), Some((f, 6))) => DicomTime::from_hms_micro(self.h, m, s, f),
            _ => return self.text().parse().expect("generator produced an invalid time"),
        }
        .expect("generator produced an invalid time")
    }
}

impl GDateTime {
    pub fn text(&self) -> String {
        let mut s = self.date.text();
        if let Some(t) = &self.time {
            s += &t.text();
        }
        if let Some(tz) = self.tz {
            let sign = if tz < 0 { '-' } else { '+' };
            let a = tz.abs();
            s += &format!("{}{:02}{:02}", sign, a / 60, a % 60);
        }
        s
    }
    pub fn to_dicom(&self) -> DicomDateTime {
        use chrono::FixedOffset;
        let d = self.date.to_dicom();
        match (&self.time, self.tz) {
            (None, None) => DicomDateTime::from_date(d),
            (None, Some(tz)) => DicomDateTime::from_date_with_time_zone(
                d,
                FixedOffset::east_opt(tz * 60).unwrap(),
            ),
            (Some(t), None) => DicomDateTime::from_date_and_time(d, t.to_dicom()).unwrap(),
            (Some(t), Some(tz)) => DicomDateTime::from_date_and_time_with_time_zone(
                d,
                t.to_dicom(),
                FixedOffset::east_opt(tz * 60).unwrap(),
            )
            .unwrap(),
        }
    }
}

#[derive(Clone, Debug, PartialEq)]
pub enum GVal {
    Empty,
    /// multi-valued text (joined with backslash on the wire)
    Strs(Vec<String>),
    /// one text value
    Str(String),
    Tags(Vec<(u16, u16)>),
    U8(Vec<u8>),
    I16(Vec<i16>),
    U16(Vec<u16>),
    I32(Vec<i32>),
    U32(Vec<u32>),
    I64(Vec<i64>),
    U64(Vec<u64>),
    F32(Vec<f32>),
    F64(Vec<f64>),
    Date(Vec<GDate>),
    Time(Vec<GTime>),
    DateTime(Vec<GDateTime>),
    Seq(GSeq),
    Pix { bot: Vec<u32>, frags: Vec<Vec<u8>> },
}

#[derive(Clone, Debug, PartialEq)]
pub struct GSeq {
    pub items: Vec<GItem>,
    /// reference encoder: write this sequence with an explicit length
    pub explicit: bool,
}

#[derive(Clone, Debug, PartialEq)]
pub struct GItem {
    pub elems: Vec<GElem>,
    pub explicit: bool,
}

#[derive(Clone, Debug, PartialEq)]
pub struct GElem {
    pub tag: (u16, u16),
    pub vr: VR,
    pub val: GVal,
}

pub type GDataset = Vec<GElem>;

impl GVal {
    pub fn shape(&self) -> &'static str {
        match self {
            GVal::Empty => "empty",
            GVal::Strs(_) => "strs",
            GVal::Str(_) => "str",
            GVal::Tags(_) => "tags",
            GVal::U8(_) => "u8",
            GVal::I16(_) => "i16",
            GVal::U16(_) => "u16",
            GVal::I32(_) => "i32",
            GVal::U32(_) => "u32",
            GVal::I64(_) => "i64",
            GVal::U64(_) => "u64",
            GVal::F32(_) => "f32",
            GVal::F64(_) => "f64",
            GVal::Date(_) => "date",
            GVal::Time(_) => "time",
            GVal::DateTime(_) => "datetime",
            GVal::Seq(_) => "seq",
            GVal::Pix { .. } => "pix",
        }
    }
    pub fn multiplicity(&self) -> usize {
        match self {
            GVal::Empty => 0,
            GVal::Strs(v) => v.len(),
            GVal::Str(_) => 1,
            GVal::Tags(v) => v.len(),
            GVal::U8(v) => v.len(),
            GVal::I16(v) => v.len(),
            GVal::U16(v) => v.len(),
            GVal::I32(v) => v.len(),
            GVal::U32(v) => v.len(),
            GVal::I64(v) => v.len(),
            GVal::U64(v) => v.len(),
            GVal::F32(v) => v.len(),
            GVal::F64(v) => v.len(),
            GVal::Date(v) => v.len(),
            GVal::Time(v) => v.len(),
            GVal::DateTime(v) => v.len(),
            GVal::Seq(s) => s.items.len(),
            GVal::Pix { frags, .. } => frags.len(),
        }
    }
    pub fn to_primitive(&self) -> Option<PrimitiveValue> {
        fn c<T: Clone>(v: &[T]) -> C<T> {
            C::from(v.to_vec())
        }
        Some(match self {
            GVal::Empty => PrimitiveValue::Empty,
            GVal::Strs(v) => PrimitiveValue::Strs(c(v)),
            GVal::Str(s) => PrimitiveValue::Str(s.clone()),
            GVal::Tags(v) => PrimitiveValue::Tags(v.iter().map(|t| Tag(t.0, t.1)).collect()),
            GVal::U8(v) => PrimitiveValue::U8(c(v)),
            GVal::I16(v) => PrimitiveValue::I16(c(v)),
            GVal::U16(v) => PrimitiveValue::U16(c(v)),
            GVal::I32(v) => PrimitiveValue::I32(c(v)),
            GVal::U32(v) => PrimitiveValue::U32(c(v)),
            GVal::I64(v) => PrimitiveValue::I64(c(v)),
            GVal::U64(v) => PrimitiveValue::U64(c(v)),
            GVal::F32(v) => PrimitiveValue::F32(c(v)),
            GVal::F64(v) => PrimitiveValue::F64(c(v)),
            GVal::Date(v) => PrimitiveValue::Date(v.iter().map(|d| d.to_dicom()).collect()),
            GVal::Time(v) => PrimitiveValue::Time(v.iter().map(|d| d.to_dicom()).collect()),
            GVal::DateTime(v) => {
                PrimitiveValue::DateTime(v.iter().map(|d| d.to_dicom()).collect())
            }
            GVal::Seq(_) | GVal::Pix { .. } => return None,
        })
    }
}

pub fn elem_to_dicom(e: &GElem) -> InMemElement {
    let tag = Tag(e.tag.0, e.tag.1);
    match &e.val {
        GVal::Seq(s) => {
            let items: Vec<InMemDicomObject> = s.items.iter().map(|it| to_object(&it.elems)).collect();
            DataElement::new(
                tag,
                e.vr,
                Value::Sequence(DataSetSequence::new(items, Length::UNDEFINED)),
            )
        }
        GVal::Pix { bot, frags } => DataElement::new(
            tag,
            e.vr,
            Value::PixelSequence(PixelFragmentSequence::new(bot.clone(), frags.clone())),
        ),
        v => DataElement::new(tag, e.vr, Value::Primitive(v.to_primitive().unwrap())),
    }
}

pub fn to_object(ds: &[GElem]) -> InMemDicomObject {
    InMemDicomObject::from_element_iter(ds.iter().map(elem_to_dicom))
}

fn tagstr(t: (u16, u16)) -> String {
    format!("{:04X}{:04X}", t.0, t.1)
}

/// JSON description (for witnesses, samples and the Python oracles).
pub fn elem_json(e: &GElem) -> J {
    let val = match &e.val {
        GVal::Empty => json!(null),
        GVal::Strs(v) => json!(v),
        GVal::Str(s) => json!(s),
        GVal::Tags(v) => json!(v.iter().map(|t| tagstr(*t)).collect::<Vec<_>>()),
        GVal::U8(v) => json!(crate::report::hex_short(v, 64)),
        GVal::I16(v) => json!(v),
        GVal::U16(v) => json!(v),
        GVal::I32(v) => json!(v),
        GVal::U32(v) => json!(v),
        GVal::I64(v) => json!(v),
        GVal::U64(v) => json!(v),
        GVal::F32(v) => json!(v.iter().map(|x| format!("{:?}", x)).collect::<Vec<_>>()),
        GVal::F64(v) => json!(v.iter().map(|x| format!("{:?}", x)).collect::<Vec<_>>()),
        GVal::Date(v) => json!(v.iter().map(|x| x.text()).collect::<Vec<_>>()),
        GVal::Time(v) => json!(v.iter().map(|x| x.text()).collect::<Vec<_>>()),
        GVal::DateTime(v) => json!(v.iter().map(|x| x.text()).collect::<Vec<_>>()),
        GVal::Seq(s) => json!({
            "explicit": s.explicit,
            "items": s.items.iter().map(|it| json!({"explicit": it.explicit, "elems": ds_json(&it.elems)})).collect::<Vec<_>>()
        }),
        GVal::Pix { bot, frags } => json!({
            "bot": bot,
            "frags": frags.iter().map(|f| crate::report::hex_short(f, 32)).collect::<Vec<_>>()
        }),
    };
    json!({"tag": tagstr(e.tag), "vr": e.vr.to_string(), "shape": e.val.shape(), "val": val})
}

pub fn ds_json(ds: &[GElem]) -> J {
    J::Array(ds.iter().map(elem_json).collect())
}

pub fn depth(ds: &[GElem]) -> usize {
    ds.iter()
        .map(|e| match &e.val {
            GVal::Seq(s) => 1 + s.items.iter().map(|i| depth(&i.elems)).max().unwrap_or(0),
            _ => 0,
        })
        .max()
        .unwrap_or(0)
}

/// Walk all elements (pre-order) with their nesting depth.
pub fn walk<'a>(ds: &'a [GElem], d: usize, f: &mut dyn FnMut(&'a GElem, usize)) {
    for e in ds {
        f(e, d);
        if let GVal::Seq(s) = &e.val {
            for it in &s.items {
                walk(&it.elems, d + 1, f);
            }
        }
    }
}
