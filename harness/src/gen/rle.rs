//! O-RLE — independent reference *encoder* for RLE Lossless, written from PS3.5 Annex G.
//! Shares no code with dicom-rs (which only has a decoder).
//!
//! G.2  A frame is one fragment. The composite pixel code of a pixel is split into bytes, most
//!      significant byte first; byte k of every pixel of the frame forms byte segment k. For
//!      several samples per pixel the composite code is sample 0 | sample 1 | sample 2, so the
//!      segment order for 16-bit RGB is R-hi, R-lo, G-hi, G-lo, B-hi, B-lo.
//! G.3  Every byte segment is PackBits-coded row by row (no run crosses a row boundary):
//!        literal run    : header n = count-1  (0..=127), then `count` bytes (1..=128)
//!        replicate run  : header n = -(count-1) (-1..=-127, as a signed byte), then one byte
//!                         repeated `count` times (2..=128)
//!        n = -128       : no operation (decoders skip it)
//!      and padded with a zero byte to an even length.
//! G.5  The fragment starts with a 64-byte header of sixteen little-endian UL: the number of
//!      segments, then the byte offset of each segment from the start of the header, zero for the
//!      unused ones.

use crate::rng::Rng;

#[derive(Clone, Copy, Debug, PartialEq)]
pub enum RunMode {
    /// maximal replicate runs for repeats ≥ 2 (≥ 3 inside literal context), maximal literals
    Greedy,
    /// random mix: repeats may be cut anywhere, coded as literals, literals cut at random lengths
    Random,
    /// literal runs only
    LiteralOnly,
    /// every run as short as possible (count 1 literals / count 2 replicates)
    Shortest,
}

#[derive(Clone, Debug)]
pub struct RleOpts {
    pub mode: RunMode,
    /// probability (in 1/256) of inserting a -128 no-op byte before a run
    pub noop_per_256: u32,
}

#[derive(Default, Clone, Debug)]
pub struct RleStats {
    pub literal_runs: u64,
    pub replicate_runs: u64,
    pub runs_of_128: u64,
    pub repeats_cut_at_128: u64,
    pub noops: u64,
    pub padded_segments: u64,
    pub segments: u64,
}

/// PackBits-encode one row, appending to `out`.
fn encode_row(row: &[u8], o: &RleOpts, rng: &mut Rng, out: &mut Vec<u8>, st: &mut RleStats) {
    let n = row.len();
    let mut pos = 0;
    while pos < n {
        if o.noop_per_256 > 0 && rng.below(256) < o.noop_per_256 as u64 {
            out.push(0x80);
            st.noops += 1;
        }
        // length of the run of identical bytes starting here
        let mut r = 1;
        while pos + r < n && row[pos + r] == row[pos] {
            r += 1;
        }
        let replicate = match o.mode {
            RunMode::Greedy => r >= 2,
            RunMode::Random => r >= 2 && rng.chance(2, 3),
            RunMode::LiteralOnly => false,
            RunMode::Shortest => r >= 2,
        };
        if replicate {
            let maxc = r.min(128);
            let c = match o.mode {
                RunMode::Greedy => maxc,
                RunMode::Shortest => 2,
                _ => {
                    if rng.chance(1, 2) {
                        maxc
                    } else {
                        rng.urange(2, maxc)
                    }
                }
            };
            if r > 128 && c == 128 {
                st.repeats_cut_at_128 += 1;
            }
            if c == 128 {
                st.runs_of_128 += 1;
            }
            out.push((1i32 - c as i32) as i8 as u8);
            out.push(row[pos]);
            st.replicate_runs += 1;
            pos += c;
        } else {
            // literal run
            let rest = n - pos;
            let c = match o.mode {
                RunMode::Greedy => {
                    // extend until a repeat of ≥ 3 starts (or the row / 128 limit ends it)
                    let mut c = 1;
                    while c < rest.min(128) {
                        let p = pos + c;
                        let rep3 = p + 2 < n && row[p] == row[p + 1] && row[p] == row[p + 2];
                        let rep2_end = p + 2 == n && row[p] == row[p + 1];
                        if rep3 || rep2_end {
                            break;
                        }
                        c += 1;
                    }
                    c
                }
                RunMode::Shortest => 1,
                RunMode::LiteralOnly => {
                    if rng.chance(1, 2) {
                        rest.min(128)
                    } else {
                        rng.urange(1, rest.min(128))
                    }
                }
                RunMode::Random => {
                    if rng.chance(1, 3) {
                        rest.min(128)
                    } else {
                        let cap = 1 + rng.usize(24);
                        rng.urange(1, rest.min(128).min(cap))
                    }
                }
            };
            if c == 128 {
                st.runs_of_128 += 1;
            }
            out.push((c - 1) as u8);
            out.extend_from_slice(&row[pos..pos + c]);
            st.literal_runs += 1;
            pos += c;
        }
    }
}

/// Encode one frame. `samples`: rows × cols × spp samples in pixel-interleaved order;
/// `bytes_per_sample` 1 or 2. Returns the fragment (64-byte header + segments).
pub fn encode_frame(
    samples: &[u16],
    rows: usize,
    cols: usize,
    spp: usize,
    bytes_per_sample: usize,
    o: &RleOpts,
    rng: &mut Rng,
    st: &mut RleStats,
) -> Vec<u8> {
    assert_eq!(samples.len(), rows * cols * spp);
    let nseg = spp * bytes_per_sample;
    assert!(nseg <= 15);
    let mut segments: Vec<Vec<u8>> = Vec::with_capacity(nseg);
    for s in 0..spp {
        // most significant byte first
        for b in (0..bytes_per_sample).rev() {
            let mut seg = Vec::new();
            let mut row = Vec::with_capacity(cols);
            for r in 0..rows {
                row.clear();
                for c in 0..cols {
                    let v = samples[(r * cols + c) * spp + s];
                    row.push(((v >> (8 * b)) & 0xFF) as u8);
                }
                encode_row(&row, o, rng, &mut seg, st);
            }
            if seg.len() % 2 == 1 {
                seg.push(0);
                st.padded_segments += 1;
            }
            st.segments += 1;
            segments.push(seg);
        }
    }
    let mut out = vec![0u8; 64];
    out[0..4].copy_from_slice(&(nseg as u32).to_le_bytes());
    let mut off = 64u32;
    for (k, seg) in segments.iter().enumerate() {
        out[4 + 4 * k..8 + 4 * k].copy_from_slice(&off.to_le_bytes());
        off += seg.len() as u32;
    }
    for seg in segments {
        out.extend_from_slice(&seg);
    }
    out
}

/// Straightforward Annex G.3.2 decoder used only to self-check the encoder in unit tests and at
/// run time (an encoder bug must never be reported as a decoder defect).
pub fn reference_decode_segment(seg: &[u8], want: usize) -> Vec<u8> {
    let mut out = Vec::with_capacity(want);
    let mut i = 0;
    while i < seg.len() && out.len() < want {
        let n = seg[i] as i8;
        i += 1;
        if n >= 0 {
            let c = n as usize + 1;
            if i + c > seg.len() {
                break;
            }
            out.extend_from_slice(&seg[i..i + c]);
            i += c;
        } else if n != -128 {
            let c = (1 - n as i32) as usize;
            if i >= seg.len() {
                break;
            }
            out.extend(std::iter::repeat(seg[i]).take(c));
            i += 1;
        }
    }
    out
}

/// Decode a whole fragment back to samples with the reference decoder (self-check).
pub fn reference_decode_frame(frag: &[u8], rows: usize, cols: usize, spp: usize, bps: usize) -> Option<Vec<u16>> {
    if frag.len() < 64 {
        return None;
    }
    let u32at = |o: usize| u32::from_le_bytes([frag[o], frag[o + 1], frag[o + 2], frag[o + 3]]) as usize;
    let nseg = u32at(0);
    if nseg != spp * bps {
        return None;
    }
    let mut offs: Vec<usize> = (0..nseg).map(|k| u32at(4 + 4 * k)).collect();
    offs.push(frag.len());
    let mut out = vec![0u16; rows * cols * spp];
    for s in 0..spp {
        for (j, b) in (0..bps).rev().enumerate() {
            let k = s * bps + j;
            let plane = reference_decode_segment(&frag[offs[k]..offs[k + 1]], rows * cols);
            if plane.len() != rows * cols {
                return None;
            }
            for (p, v) in plane.iter().enumerate() {
                out[p * spp + s] |= (*v as u16) << (8 * b);
            }
        }
    }
    Some(out)
}

#[cfg(test)]
mod tests {
    use super::*;

    #[test]
    fn annex_g_example_layout() {
        // 2x2, 16-bit mono, samples 0x0102 0x0102 0x0304 0x0506
        let mut rng = Rng::new(1);
        let mut st = RleStats::default();
        let o = RleOpts { mode: RunMode::Greedy, noop_per_256: 0 };
        let f = encode_frame(&[0x0102, 0x0102, 0x0304, 0x0506], 2, 2, 1, 2, &o, &mut rng, &mut st);
        assert_eq!(&f[0..4], &[2, 0, 0, 0]);
        assert_eq!(&f[4..8], &[64, 0, 0, 0]);
        // segment 0 = high bytes: row0 [01,01] -> FF 01 ; row1 [03,05] -> 01 03 05 ; pad
        assert_eq!(&f[64..70], &[0xFF, 0x01, 0x01, 0x03, 0x05, 0x00]);
        assert_eq!(&f[8..12], &[70, 0, 0, 0]);
        // segment 1 = low bytes: row0 [02,02] -> FF 02 ; row1 [04,06] -> 01 04 06 ; pad
        assert_eq!(&f[70..76], &[0xFF, 0x02, 0x01, 0x04, 0x06, 0x00]);
        assert_eq!(reference_decode_frame(&f, 2, 2, 1, 2).unwrap(), vec![0x0102, 0x0102, 0x0304, 0x0506]);
    }

    #[test]
    fn roundtrip_random() {
        for seed in 0..200 {
            let mut rng = Rng::new(seed);
            let rows = rng.urange(1, 9);
            let cols = rng.urange(1, 300);
            let spp = if rng.bool() { 1 } else { 3 };
            let bps = rng.urange(1, 2);
            let samples: Vec<u16> = (0..rows * cols * spp)
                .map(|i| if rng.chance(1, 2) { (i / 150) as u16 } else { rng.next_u32() as u16 } & if bps == 1 { 0xFF } else { 0xFFFF })
                .collect();
            let mode = *rng.pick(&[RunMode::Greedy, RunMode::Random, RunMode::LiteralOnly, RunMode::Shortest]);
            let o = RleOpts { mode, noop_per_256: 20 };
            let mut st = RleStats::default();
            let f = encode_frame(&samples, rows, cols, spp, bps, &o, &mut rng, &mut st);
            assert_eq!(f.len() % 2, 0);
            assert_eq!(reference_decode_frame(&f, rows, cols, spp, bps).unwrap(), samples);
        }
    }
}
