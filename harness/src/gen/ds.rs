//! G-DS: seeded generator of well-formed data sets (abstract trees).
//!
//! Everything produced here is *inside* the quantifier of C01/C02/C04/C06/C13/C23: values valid
//! for their VR, default repertoire, unique ascending tags, dictionary-compatible VRs on
//! dictionary-known tags.

use super::tree::*;
use crate::dictsrc;
use crate::rng::Rng;
use dicom_core::dictionary::{DataDictionary, DataDictionaryEntry, VirtualVr};
use dicom_core::{Tag, VR};
use dicom_dictionary_std::StandardDataDictionary;
use std::collections::{BTreeMap, HashMap};
use std::sync::OnceLock;

pub const ALL_VRS: [VR; 34] = [
    VR::AE, VR::AS, VR::AT, VR::CS, VR::DA, VR::DS, VR::DT, VR::FL, VR::FD, VR::IS, VR::LO,
    VR::LT, VR::OB, VR::OD, VR::OF, VR::OL, VR::OV, VR::OW, VR::PN, VR::SH, VR::SL, VR::SQ,
    VR::SS, VR::ST, VR::SV, VR::TM, VR::UC, VR::UI, VR::UL, VR::UN, VR::UR, VR::US, VR::UT,
    VR::UV,
];

pub struct Pools {
    pub by_vr: HashMap<VR, Vec<(u16, u16)>>,
}

pub fn pools() -> &'static Pools {
    static P: OnceLock<Pools> = OnceLock::new();
    P.get_or_init(|| {
        let entries = dictsrc::parse_tags_rs().expect("cannot parse dictionary source");
        let mut by_vr: HashMap<VR, Vec<(u16, u16)>> = HashMap::new();
        for e in entries {
            if e.kind != dictsrc::Kind::Single {
                continue;
            }
            let (g, el) = e.tag;
            // outside the generator's universe: command/meta/delimiter groups, group lengths,
            // Specific Character Set (C10 only), Pixel Representation (changes XS decoding),
            // pixel data itself (added deliberately), odd groups
            if g < 0x0008 || g == 0xFFFE || g & 1 == 1 || el == 0 {
                continue;
            }
            if (g, el) == (0x0008, 0x0005) || (g, el) == (0x0028, 0x0103) || g == 0x7FE0 {
                continue;
            }
            // the compiled dictionary is the authority for what the reader will assume
            let Some(entry) = StandardDataDictionary.by_tag(Tag(g, el)) else {
                continue;
            };
            if let VirtualVr::Exact(vr) = entry.vr() {
                by_vr.entry(vr).or_default().push((g, el));
            }
        }
        for v in by_vr.values_mut() {
            v.sort();
        }
        Pools { by_vr }
    })
}

#[derive(Clone, Debug)]
pub struct DsOpts {
    pub max_depth: usize,
    pub max_elems: usize,
    /// allow (7FE0,0010): native or encapsulated
    pub pixel: bool,
    pub encapsulated: bool,
    /// allow zero-length fragments inside encapsulated pixel data
    pub zero_frags: bool,
    pub private: bool,
    pub unknown: bool,
    /// typed DA/TM/DT/IS/DS variants in addition to text
    pub typed: bool,
    /// occasionally produce a value > 64 KiB in 32-bit-length VRs
    pub big: bool,
    /// mark sequences/items for explicit-length reference encoding
    pub explicit_marks: bool,
    /// allow private/unknown SQ elements
    pub foreign_sq: bool,
    /// restrict VRs (None = all)
    pub vrs: Option<Vec<VR>>,
    /// Pixel Representation / XS special case
    pub xs_case: bool,
    /// allow non-finite floats
    pub nonfinite: bool,
    /// allow (7FE0,0010) inside sequence items as well (icon images and the like)
    pub nested_pixel: bool,
    /// single text values of list-capable VRs also as one `Str`
    pub single_str: bool,
}

impl Default for DsOpts {
    fn default() -> Self {
        DsOpts {
            max_depth: 4,
            max_elems: 24,
            pixel: true,
            encapsulated: true,
            zero_frags: false,
            private: true,
            unknown: true,
            typed: true,
            big: true,
            explicit_marks: false,
            foreign_sq: true,
            vrs: None,
            xs_case: true,
            nonfinite: true,
            nested_pixel: false,
            single_str: true,
        }
    }
}

fn ascii_from(rng: &mut Rng, alphabet: &[u8], lo: usize, hi: usize) -> String {
    let n = rng.urange(lo, hi);
    (0..n).map(|_| *rng.pick(alphabet) as char).collect()
}

fn printable_no_bs() -> &'static [u8] {
    static A: OnceLock<Vec<u8>> = OnceLock::new();
    A.get_or_init(|| (0x20u8..=0x7E).filter(|c| *c != b'\\').collect())
}

/// trim so that there is no leading/trailing space, and not empty
fn tidy(mut s: String, fallback: &str) -> String {
    s = s.trim_matches(' ').to_string();
    if s.is_empty() {
        fallback.to_string()
    } else {
        s
    }
}

pub fn days_in_month(y: u16, m: u8) -> u8 {
    match m {
        1 | 3 | 5 | 7 | 8 | 10 | 12 => 31,
        4 | 6 | 9 | 11 => 30,
        _ => {
            let y = y as u32;
            if (y % 4 == 0 && y % 100 != 0) || y % 400 == 0 {
                29
            } else {
                28
            }
        }
    }
}

pub fn gen_date(rng: &mut Rng, full: bool) -> GDate {
    let y = rng.range(1, 9999) as u16;
    let prec = if full { 2 } else { rng.usize(3) };
    let m = rng.range(1, 12) as u8;
    let d = rng.range(1, days_in_month(y, m) as i64) as u8;
    GDate {
        y,
        m: if prec >= 1 { Some(m) } else { None },
        d: if prec >= 2 { Some(d) } else { None },
    }
}

pub fn gen_time(rng: &mut Rng) -> GTime {
    let prec = rng.usize(5);
    let frac = if prec >= 3 {
        let p = rng.range(1, 6) as u8;
        Some((rng.below(10u64.pow(p as u32)) as u32, p))
    } else {
        None
    };
    GTime {
        h: rng.range(0, 23) as u8,
        m: if prec >= 1 { Some(rng.range(0, 59) as u8) } else { None },
        s: if prec >= 2 { Some(rng.range(0, 59) as u8) } else { None },
        frac,
    }
}

pub fn gen_datetime(rng: &mut Rng) -> GDateTime {
    let with_time = rng.chance(2, 3);
    let date = gen_date(rng, with_time);
    let time = if with_time { Some(gen_time(rng)) } else { None };
    let tz = if rng.chance(1, 3) {
        let h = rng.range(-12, 14);
        let m = *rng.pick(&[0i64, 0, 30, 45]);
        let mut t = h * 60 + if h < 0 { -m } else { m };
        t = t.clamp(-12 * 60, 14 * 60);
        Some(t as i32)
    } else {
        None
    };
    GDateTime { date, time, tz }
}

fn count(rng: &mut Rng) -> usize {
    match rng.usize(10) {
        0..=4 => 1,
        5..=6 => 2,
        7 => 3,
        8 => rng.urange(4, 5),
        _ => rng.urange(1, 9),
    }
}

fn gen_ds_text(rng: &mut Rng) -> String {
    let s = match rng.usize(6) {
        0 => format!("{}", rng.range(-99999, 99999)),
        1 => format!("{:.3}", (rng.f64() - 0.5) * 2000.0),
        2 => format!("{:.2e}", (rng.f64() - 0.5) * 1.0e9),
        3 => format!("+{}.{}", rng.below(1000), rng.below(1000)),
        4 => "0".to_string(),
        _ => format!("{}", rng.f64() as f32),
    };
    if s.len() > 16 {
        s[..16].trim_end_matches(['e', '-', '+', '.']).to_string()
    } else {
        s
    }
}

fn float_pool32(rng: &mut Rng, nonfinite: bool) -> f32 {
    match rng.usize(12) {
        0 => 0.0,
        1 => -0.0,
        2 => f32::MAX,
        3 => f32::MIN_POSITIVE,
        4 if nonfinite => f32::NAN,
        5 if nonfinite => f32::INFINITY,
        6 if nonfinite => f32::NEG_INFINITY,
        7 => f32::from_bits(rng.next_u32() & 0x7F7F_FFFF),
        _ => ((rng.f64() - 0.5) * 1.0e6) as f32,
    }
}

fn float_pool64(rng: &mut Rng, nonfinite: bool) -> f64 {
    match rng.usize(12) {
        0 => 0.0,
        1 => -0.0,
        2 => f64::MAX,
        3 => f64::MIN_POSITIVE,
        4 if nonfinite => f64::NAN,
        5 if nonfinite => f64::INFINITY,
        6 if nonfinite => f64::NEG_INFINITY,
        7 => f64::from_bits(rng.next_u64() & 0x7FEF_FFFF_FFFF_FFFF),
        _ => (rng.f64() - 0.5) * 1.0e9,
    }
}

fn int_pool(rng: &mut Rng, min: i128, max: i128) -> i128 {
    match rng.usize(8) {
        0 => min,
        1 => max,
        2 => 0,
        3 => 1.min(max),
        4 => (min + 1).min(max),
        _ => {
            let span = (max - min) as u128 + 1;
            let r = ((rng.next_u64() as u128) << 64 | rng.next_u64() as u128) % span;
            min + r as i128
        }
    }
}

/// A value that is valid for `vr` (never SQ; never pixel sequences).
pub fn gen_value(rng: &mut Rng, vr: VR, o: &DsOpts) -> GVal {
    let v = gen_value_list(rng, vr, o);
    // a single text value is also produced in the `Str` representation (what
    // `PrimitiveValue::from(&str)` builds): it takes other paths in the encoders than a list
    if o.single_str {
        if let GVal::Strs(items) = &v {
            if items.len() == 1 && rng.chance(1, 3) {
                return GVal::Str(items[0].clone());
            }
        }
    }
    v
}

fn gen_value_list(rng: &mut Rng, vr: VR, o: &DsOpts) -> GVal {
    if vr != VR::SQ && rng.chance(1, 12) {
        return GVal::Empty;
    }
    let n = count(rng);
    let big = o.big && rng.chance(1, 400);
    match vr {
        VR::AE => GVal::Strs(
            (0..n)
                .map(|_| {
                    let alpha: Vec<u8> = (0x20u8..=0x7E).filter(|c| *c != b'\\').collect();
                    tidy(ascii_from(rng, &alpha, 1, 16), "AE")
                })
                .collect(),
        ),
        VR::AS => GVal::Strs(
            (0..n)
                .map(|_| format!("{:03}{}", rng.below(1000), *rng.pick(&['D', 'W', 'M', 'Y'])))
                .collect(),
        ),
        VR::AT => GVal::Tags(
            (0..n)
                .map(|_| (rng.next_u32() as u16, rng.next_u32() as u16))
                .collect(),
        ),
        VR::CS => GVal::Strs(
            (0..n)
                .map(|_| {
                    tidy(
                        ascii_from(rng, b"ABCDEFGHIJKLMNOPQRSTUVWXYZ0123456789_ ", 1, 16),
                        "CS",
                    )
                })
                .collect(),
        ),
        VR::DA => {
            if o.typed && rng.bool() {
                GVal::Date((0..n).map(|_| { let full = rng.chance(3, 4); gen_date(rng, full) }).collect())
            } else {
                GVal::Strs((0..n).map(|_| gen_date(rng, true).text()).collect())
            }
        }
        VR::DS => {
            if o.typed && rng.chance(1, 3) {
                GVal::F64(
                    (0..n)
                        .map(|_| match rng.usize(4) {
                            0 => rng.range(-1000, 1000) as f64,
                            1 => (rng.range(-100000, 100000) as f64) / 100.0,
                            _ => (rng.f64() - 0.5) * 1.0e6,
                        })
                        .collect(),
                )
            } else {
                GVal::Strs((0..n).map(|_| gen_ds_text(rng)).collect())
            }
        }
        VR::DT => {
            if o.typed && rng.bool() {
                GVal::DateTime((0..n).map(|_| gen_datetime(rng)).collect())
            } else {
                GVal::Strs((0..n).map(|_| gen_datetime(rng).text()).collect())
            }
        }
        VR::FL => GVal::F32((0..n).map(|_| float_pool32(rng, o.nonfinite)).collect()),
        VR::FD => GVal::F64((0..n).map(|_| float_pool64(rng, o.nonfinite)).collect()),
        VR::IS => {
            if o.typed && rng.chance(1, 3) {
                GVal::I32(
                    (0..n)
                        .map(|_| int_pool(rng, i32::MIN as i128, i32::MAX as i128) as i32)
                        .collect(),
                )
            } else {
                GVal::Strs(
                    (0..n)
                        .map(|_| {
                            let v = int_pool(rng, i32::MIN as i128, i32::MAX as i128);
                            if v > 0 && rng.chance(1, 5) {
                                format!("+{}", v)
                            } else {
                                format!("{}", v)
                            }
                        })
                        .collect(),
                )
            }
        }
        VR::LO => GVal::Strs(
            (0..n)
                .map(|_| tidy(ascii_from(rng, printable_no_bs(), 1, 64), "LO"))
                .collect(),
        ),
        VR::SH => GVal::Strs(
            (0..n)
                .map(|_| tidy(ascii_from(rng, printable_no_bs(), 1, 16), "SH"))
                .collect(),
        ),
        VR::PN => GVal::Strs(
            (0..n)
                .map(|_| {
                    let comps = rng.urange(1, 5);
                    let mut s = String::new();
                    for i in 0..comps {
                        if i > 0 {
                            s.push('^');
                        }
                        if rng.chance(4, 5) {
                            s += &tidy(
                                ascii_from(rng, b"ABCDEFGHIJKLMNOPQRSTUVWXYZabcdefghij -'.", 1, 10),
                                "X",
                            );
                        }
                    }
                    let s = s.trim_end_matches('^').to_string();
                    tidy(s, "Doe^John")
                })
                .collect(),
        ),
        VR::UC => {
            let hi = if big { 70_000 } else { 80 };
            GVal::Strs(
                (0..n)
                    .map(|_| tidy(ascii_from(rng, printable_no_bs(), 1, hi), "UC"))
                    .collect(),
            )
        }
        VR::LT | VR::ST | VR::UT => {
            let hi = if big && vr == VR::UT { 70_000 } else { 300 };
            let mut alpha: Vec<u8> = (0x20u8..=0x7E).collect();
            alpha.extend_from_slice(b"\r\n\t\x0c");
            let s = ascii_from(rng, &alpha, 1, hi);
            // trailing spaces are padding by definition: do not generate them
            let s = s.trim_end_matches(' ').to_string();
            GVal::Str(if s.is_empty() { "T".into() } else { s })
        }
        VR::UR => GVal::Str(tidy(
            ascii_from(
                rng,
                b"abcdefghijklmnopqrstuvwxyzABCDEFGHIJKLMNOPQRSTUVWXYZ0123456789-._~:/?#[]@!$&'()*+,;=%",
                1,
                if big { 70_000 } else { 120 },
            ),
            "http://x",
        )),
        VR::TM => {
            if o.typed && rng.bool() {
                GVal::Time((0..n).map(|_| gen_time(rng)).collect())
            } else {
                GVal::Strs((0..n).map(|_| gen_time(rng).text()).collect())
            }
        }
        VR::UI => GVal::Strs(
            (0..n)
                .map(|_| {
                    let comps = rng.urange(1, 8);
                    let mut s = String::new();
                    for i in 0..comps {
                        if i > 0 {
                            s.push('.');
                        }
                        let v = rng.below(100000);
                        s += &format!("{}", if i == 0 { 1 + v % 2 } else { v });
                        if s.len() > 56 {
                            break;
                        }
                    }
                    s
                })
                .collect(),
        ),
        VR::OB | VR::UN => {
            let len = if big { rng.urange(65_530, 70_000) } else { rng.urange(1, 40) };
            GVal::U8(rng.bytes(len))
        }
        VR::OW => {
            let len = if big { rng.urange(32_760, 35_000) } else { rng.urange(1, 20) };
            GVal::U16((0..len).map(|_| rng.next_u32() as u16).collect())
        }
        VR::OL => GVal::U32((0..rng.urange(1, 12)).map(|_| rng.next_u32()).collect()),
        VR::OV => GVal::U64((0..rng.urange(1, 8)).map(|_| rng.next_u64()).collect()),
        VR::OF => GVal::F32((0..rng.urange(1, 12)).map(|_| float_pool32(rng, o.nonfinite)).collect()),
        VR::OD => GVal::F64((0..rng.urange(1, 8)).map(|_| float_pool64(rng, o.nonfinite)).collect()),
        VR::SL => GVal::I32(
            (0..n)
                .map(|_| int_pool(rng, i32::MIN as i128, i32::MAX as i128) as i32)
                .collect(),
        ),
        VR::SS => GVal::I16(
            (0..n)
                .map(|_| int_pool(rng, i16::MIN as i128, i16::MAX as i128) as i16)
                .collect(),
        ),
        VR::SV => GVal::I64(
            (0..n)
                .map(|_| int_pool(rng, i64::MIN as i128, i64::MAX as i128) as i64)
                .collect(),
        ),
        VR::UL => GVal::U32((0..n).map(|_| int_pool(rng, 0, u32::MAX as i128) as u32).collect()),
        VR::US => GVal::U16((0..n).map(|_| int_pool(rng, 0, u16::MAX as i128) as u16).collect()),
        VR::UV => GVal::U64((0..n).map(|_| int_pool(rng, 0, u64::MAX as i128) as u64).collect()),
        VR::SQ => unreachable!("sequences are generated by gen_dataset"),
    }
}

fn gen_seq(rng: &mut Rng, o: &DsOpts, depth: usize) -> GVal {
    let n_items = match rng.usize(8) {
        0 => 0,
        1..=4 => 1,
        5..=6 => 2,
        _ => 3,
    };
    let items = (0..n_items)
        .map(|_| {
            let mut sub = o.clone();
            sub.max_elems = 5;
            sub.pixel = o.pixel && o.nested_pixel && rng.chance(1, 3);
            sub.xs_case = false;
            let elems = if rng.chance(1, 8) {
                Vec::new()
            } else {
                gen_dataset_at(rng, &sub, depth + 1)
            };
            GItem {
                elems,
                explicit: o.explicit_marks && rng.bool(),
            }
        })
        .collect();
    GVal::Seq(GSeq {
        items,
        explicit: o.explicit_marks && rng.bool(),
    })
}

fn pick_vr(rng: &mut Rng, o: &DsOpts, depth: usize) -> VR {
    let vr = match &o.vrs {
        Some(v) => *rng.pick(v),
        None => {
            // sequences slightly over-represented while depth remains
            if depth < o.max_depth && rng.chance(1, 7) {
                VR::SQ
            } else {
                *rng.pick(&ALL_VRS)
            }
        }
    };
    if vr == VR::SQ && depth >= o.max_depth {
        VR::LO
    } else {
        vr
    }
}

pub fn gen_pixel_fragments(rng: &mut Rng, zero_frags: bool) -> GVal {
    let nfr = rng.usize(6);
    let mut frags: Vec<Vec<u8>> = Vec::new();
    for _ in 0..nfr {
        let len = match rng.usize(6) {
            0 if zero_frags => 0,
            1 => 2,
            _ => 2 * rng.urange(1, 20),
        };
        frags.push(rng.bytes(len));
    }
    let bot = if nfr > 0 && rng.bool() {
        // a plausible table: cumulative offsets of item starts
        let mut t = Vec::new();
        let mut off = 0u32;
        for f in &frags {
            t.push(off);
            off += 8 + f.len() as u32;
        }
        if rng.bool() {
            t.truncate(1);
        }
        t
    } else {
        Vec::new()
    };
    GVal::Pix { bot, frags }
}

pub fn gen_dataset(rng: &mut Rng, o: &DsOpts) -> GDataset {
    gen_dataset_at(rng, o, 0)
}

fn gen_dataset_at(rng: &mut Rng, o: &DsOpts, depth: usize) -> GDataset {
    let p = pools();
    let mut map: BTreeMap<(u16, u16), GElem> = BTreeMap::new();
    let n = rng.urange(1, o.max_elems.max(1));
    for _ in 0..n {
        let vr = pick_vr(rng, o, depth);
        let kind = rng.usize(10);
        let (tag, vr) = if kind < 6 || (!o.private && !o.unknown) {
            // standard dictionary tag with exactly this VR
            match p.by_vr.get(&vr) {
                Some(pool) if !pool.is_empty() => (*rng.pick(pool), vr),
                _ => {
                    // no standard attribute has this VR (e.g. UN, OV in some editions)
                    if !o.private {
                        continue;
                    }
                    (private_tag(rng), vr)
                }
            }
        } else if (kind < 8 && o.private) || !o.unknown {
            (private_tag(rng), vr)
        } else {
            // unknown even group
            let mut t;
            loop {
                t = (
                    (0x4000 + 2 * rng.below(0x1000)) as u16,
                    rng.range(1, 0xFFFF) as u16,
                );
                if StandardDataDictionary.by_tag(Tag(t.0, t.1)).is_none() {
                    break;
                }
            }
            (t, vr)
        };
        let foreign = StandardDataDictionary.by_tag(Tag(tag.0, tag.1)).is_none();
        if vr == VR::SQ && foreign && !o.foreign_sq {
            continue;
        }
        let val = if vr == VR::SQ {
            gen_seq(rng, o, depth)
        } else {
            gen_value(rng, vr, o)
        };
        map.insert(tag, GElem { tag, vr, val });
    }
    // private creators for every private block used
    let blocks: Vec<(u16, u16)> = map
        .keys()
        .filter(|t| t.0 & 1 == 1 && t.1 >= 0x1000)
        .map(|t| (t.0, t.1 >> 8))
        .collect();
    for (g, b) in blocks {
        map.entry((g, b)).or_insert(GElem {
            tag: (g, b),
            vr: VR::LO,
            val: GVal::Strs(vec![format!("CREATOR {:02X}", b)]),
        });
    }
    if depth == 0 {
        // group length element (dictionary: generic group length, UL)
        if rng.chance(1, 10) {
            let g = *rng.pick(&[0x0008u16, 0x0010, 0x0028]);
            map.insert(
                (g, 0),
                GElem {
                    tag: (g, 0),
                    vr: VR::UL,
                    val: GVal::U32(vec![rng.next_u32()]),
                },
            );
        }
        // Pixel Representation followed by a US-or-SS attribute
        if o.xs_case && rng.chance(1, 12) {
            let signed = rng.bool();
            map.retain(|t, _| *t != (0x0028, 0x0103));
            map.insert(
                (0x0028, 0x0103),
                GElem {
                    tag: (0x0028, 0x0103),
                    vr: VR::US,
                    val: GVal::U16(vec![signed as u16]),
                },
            );
            // Smallest/LargestImagePixelValue, PixelPaddingValue (all XS in the dictionary)
            for t in [(0x0028u16, 0x0106u16), (0x0028, 0x0107), (0x0028, 0x0120)] {
                if rng.bool() {
                    let e = if signed {
                        GElem {
                            tag: t,
                            vr: VR::SS,
                            val: GVal::I16(vec![rng.next_u32() as i16]),
                        }
                    } else {
                        GElem {
                            tag: t,
                            vr: VR::US,
                            val: GVal::U16(vec![rng.next_u32() as u16]),
                        }
                    };
                    map.insert(t, e);
                }
            }
        }
    }
    // (7FE0,0010): at the top level, and inside items when the caller asked for it
    // (gen_seq clears `pixel` for items unless `nested_pixel` is set)
    if depth == 0 || o.nested_pixel {
        if o.pixel && rng.chance(1, if depth == 0 { 4 } else { 2 }) {
            let val = if o.encapsulated && rng.bool() {
                gen_pixel_fragments(rng, o.zero_frags)
            } else {
                GVal::U16((0..rng.urange(1, 40)).map(|_| rng.next_u32() as u16).collect())
            };
            let vr = if matches!(val, GVal::Pix { .. }) { VR::OB } else { VR::OW };
            map.insert(
                (0x7FE0, 0x0010),
                GElem {
                    tag: (0x7FE0, 0x0010),
                    vr,
                    val,
                },
            );
            // attributes after pixel data
            if rng.chance(1, 4) {
                map.insert(
                    (0xFFFC, 0xFFFC),
                    GElem {
                        tag: (0xFFFC, 0xFFFC),
                        vr: VR::OB,
                        val: { let k = 2 * rng.urange(1, 5); GVal::U8(rng.bytes(k)) },
                    },
                );
            }
        }
    }
    map.into_values().collect()
}

fn private_tag(rng: &mut Rng) -> (u16, u16) {
    let g = (0x0009 + 2 * rng.below(0x20)) as u16;
    let block = rng.range(0x10, 0x14) as u16;
    (g, (block << 8) | rng.below(0x100) as u16)
}
