//! G-PDU — generator of well-formed DICOM upper layer PDUs (all `Pdu` variants, every
//! `UserVariableItem`), plus an abstract JSON description of a PDU that is computed from the
//! generated value with tables taken from PS3.8 §9.3 / PS3.7 Annex D (not from the dicom-rs writer).
//!
//! Well-formedness rules the generator keeps (so that a round trip must be exact):
//! * AE titles: 1–16 characters of the ISO 646 basic G0 set (0x20–0x7E), no leading/trailing space
//!   (PS3.8: leading and trailing spaces are non-significant; the reader trims them).
//! * UIDs: digits and '.', components without leading zeros, ≤ 64 characters, never padded.
//! * Implementation version name: 1–16 G0 characters, no leading/trailing space.
//! * Presentation context ids: distinct odd numbers.
//! * A-ASSOCIATE-RJ / A-ABORT codes: only those enumerated (or listed as reserved) in PS3.8.
//! * `Unknown` PDU types / sub-item types never collide with a type the library decodes itself;
//!   unknown sub-items whose type *is* defined by PS3.7 (53H, 57H, 59H) carry a valid body.
//! * Every 16-bit item length fits (user information item ≤ 65 535 bytes in total).

use crate::rng::Rng;
use dicom_ul::pdu::*;
use serde_json::{json, Value};

#[derive(Clone, Copy, Debug, PartialEq, Eq)]
pub enum Kind {
    Rq,
    Ac,
    Rj,
    PData,
    ReleaseRq,
    ReleaseRp,
    Abort,
    Unknown,
}

pub const ALL_KINDS: [Kind; 8] = [
    Kind::Rq,
    Kind::Ac,
    Kind::Rj,
    Kind::PData,
    Kind::ReleaseRq,
    Kind::ReleaseRp,
    Kind::Abort,
    Kind::Unknown,
];

#[derive(Clone, Debug)]
pub struct PduOpts {
    /// restrict the variants (None = all)
    pub kinds: Option<Vec<Kind>>,
    /// upper bound on presentation contexts (≤ 128)
    pub max_pcs: usize,
    /// upper bound on transfer syntaxes per proposed context
    pub max_ts: usize,
    /// allow large sub-items / payloads (tens of KiB); otherwise everything stays small
    pub big: bool,
    /// upper bound for P-DATA / unknown-PDU payload bytes
    pub max_payload: usize,
}

impl Default for PduOpts {
    fn default() -> Self {
        PduOpts {
            kinds: None,
            max_pcs: 128,
            max_ts: 8,
            big: true,
            max_payload: 70_000,
        }
    }
}

impl PduOpts {
    pub fn small() -> Self {
        PduOpts {
            kinds: None,
            max_pcs: 4,
            max_ts: 3,
            big: false,
            max_payload: 64,
        }
    }
}

/// PDU types the library decodes itself (an `Unknown` PDU must not use them).
pub fn known_pdu_type(t: u8) -> bool {
    (1..=7).contains(&t)
}

/// User-information sub-item types the library decodes itself.
pub fn known_sub_item(t: u8) -> bool {
    matches!(t, 0x51 | 0x52 | 0x54 | 0x55 | 0x56 | 0x58)
}

pub fn gen_uid(rng: &mut Rng) -> String {
    const WELL_KNOWN: [&str; 10] = [
        "1.2.840.10008.1.1",
        "1.2.840.10008.1.2",
        "1.2.840.10008.1.2.1",
        "1.2.840.10008.1.2.2",
        "1.2.840.10008.1.2.4.50",
        "1.2.840.10008.5.1.4.1.1.2",
        "1.2.840.10008.5.1.4.1.1.7",
        "1.2.840.10008.5.1.4.1.2.2.1",
        "1.2.840.10008.3.1.1.1",
        "1.2.840.10008.5.1.4.1.1.88.59",
    ];
    if rng.chance(1, 3) {
        return rng.pick(&WELL_KNOWN).to_string();
    }
    let target = match rng.below(10) {
        0 => 64,
        1 => 63,
        2 => 1,
        _ => rng.urange(3, 64),
    };
    let mut s = String::new();
    loop {
        // one component
        let room = target - s.len();
        if room == 0 {
            break;
        }
        let clen = rng.urange(1, room.min(12));
        if clen == 1 {
            s.push((b'0' + rng.below(10) as u8) as char);
        } else {
            s.push((b'1' + rng.below(9) as u8) as char);
            for _ in 1..clen {
                s.push((b'0' + rng.below(10) as u8) as char);
            }
        }
        // need at least 2 more characters for ".d"
        if target - s.len() >= 2 {
            s.push('.');
        } else {
            break;
        }
    }
    if s.ends_with('.') {
        s.pop();
    }
    s
}

/// 1..=max characters of the G0 set, first and last not a space.
pub fn gen_g0(rng: &mut Rng, max: usize) -> String {
    let n = match rng.below(6) {
        0 => max,
        1 => 1,
        _ => rng.urange(1, max),
    };
    let mut v: Vec<u8> = (0..n)
        .map(|_| {
            if rng.chance(1, 8) {
                b' '
            } else if rng.chance(3, 4) {
                *rng.pick(b"ABCDEFGHIJKLMNOPQRSTUVWXYZ0123456789_-")
            } else {
                0x21 + rng.below(0x7E - 0x21 + 1) as u8
            }
        })
        .collect();
    let edge = |rng: &mut Rng| 0x21 + rng.below(0x7E - 0x21 + 1) as u8;
    if v[0] == b' ' {
        v[0] = edge(rng);
    }
    if v[n - 1] == b' ' {
        v[n - 1] = edge(rng);
    }
    String::from_utf8(v).unwrap()
}

pub fn gen_ae_title(rng: &mut Rng) -> String {
    gen_g0(rng, 16)
}

fn size_class(rng: &mut Rng, big: bool, cap: usize) -> usize {
    let n = if big {
        match rng.below(40) {
            0 => cap,
            1 => rng.urange(cap / 2, cap),
            2..=4 => rng.urange(256, 4096.min(cap).max(256)),
            5..=12 => rng.urange(17, 255),
            13..=16 => 0,
            _ => rng.urange(1, 16),
        }
    } else {
        match rng.below(8) {
            0 => 0,
            _ => rng.urange(1, 24),
        }
    };
    n.min(cap)
}

/// Valid body of a sub-item whose type is defined by PS3.7 Annex D but which the library keeps
/// as `UserVariableItem::Unknown`.
fn defined_unknown_body(rng: &mut Rng, t: u8) -> Vec<u8> {
    let mut v = Vec::new();
    match t {
        0x53 => {
            // Asynchronous Operations Window: max ops invoked, max ops performed
            v.extend_from_slice(&(rng.below(65536) as u16).to_be_bytes());
            v.extend_from_slice(&(rng.below(65536) as u16).to_be_bytes());
        }
        0x57 => {
            // SOP Class Common Extended Negotiation (the sub-item version lives in the header's
            // second byte, which the writer always sends as 0)
            let sop = gen_uid(rng);
            let svc = gen_uid(rng);
            v.extend_from_slice(&(sop.len() as u16).to_be_bytes());
            v.extend_from_slice(sop.as_bytes());
            v.extend_from_slice(&(svc.len() as u16).to_be_bytes());
            v.extend_from_slice(svc.as_bytes());
            let mut rel = Vec::new();
            for _ in 0..rng.below(3) {
                let u = gen_uid(rng);
                rel.extend_from_slice(&(u.len() as u16).to_be_bytes());
                rel.extend_from_slice(u.as_bytes());
            }
            v.extend_from_slice(&(rel.len() as u16).to_be_bytes());
            v.extend_from_slice(&rel);
        }
        0x59 => {
            // User Identity server response
            let n = rng.urange(0, 40);
            v.extend_from_slice(&(n as u16).to_be_bytes());
            v.extend_from_slice(&rng.bytes(n));
        }
        _ => unreachable!(),
    }
    v
}

fn unknown_sub_item_type(rng: &mut Rng) -> u8 {
    loop {
        let t = match rng.below(4) {
            0 => *rng.pick(&[0x53u8, 0x57, 0x59]),
            1 => *rng.pick(&[0x00u8, 0x50, 0x5A, 0xFF, 0x10, 0x20, 0x21, 0x30, 0x40]),
            _ => rng.below(256) as u8,
        };
        if !known_sub_item(t) {
            return t;
        }
    }
}

/// Encoded size of a user variable inside the user information item (PS3.7 Annex D layouts).
pub fn user_var_wire_len(u: &UserVariableItem) -> usize {
    4 + match u {
        UserVariableItem::Unknown(_, d) => d.len(),
        UserVariableItem::MaxLength(_) => 4,
        UserVariableItem::ImplementationClassUID(s) => s.len(),
        UserVariableItem::ImplementationVersionName(s) => s.len(),
        UserVariableItem::SopClassExtendedNegotiationSubItem(uid, d) => 2 + uid.len() + d.len(),
        UserVariableItem::ScuScpRoleSelectionSubItem(uid, _) => 2 + uid.len() + 2,
        UserVariableItem::UserIdentityItem(ui) => {
            2 + 2 + ui.primary_field().len() + 2 + ui.secondary_field().len()
        }
    }
}

pub fn gen_user_identity(rng: &mut Rng, big: bool, cap: usize) -> UserIdentity {
    let ty = match rng.below(5) {
        0 => UserIdentityType::Username,
        1 => UserIdentityType::UsernamePassword,
        2 => UserIdentityType::KerberosServiceTicket,
        3 => UserIdentityType::SamlAssertion,
        _ => UserIdentityType::Jwt,
    };
    let cap = cap.saturating_sub(8);
    let text = |rng: &mut Rng, n: usize| -> Vec<u8> {
        // UTF-8 text for user names / passphrases
        let mut s = String::new();
        while s.len() < n {
            let c = *rng.pick(&['a', 'Z', '0', '_', 'é', 'ß', '中', ' ', '@', '\\']);
            if s.len() + c.len_utf8() > n {
                s.push('x');
            } else {
                s.push(c);
            }
        }
        s.into_bytes()
    };
    let (p, s) = match ty {
        UserIdentityType::Username => {
            let n = rng.urange(1, 64).min(cap.max(1));
            (text(rng, n), vec![])
        }
        UserIdentityType::UsernamePassword => {
            let n = rng.urange(1, 64).min((cap / 2).max(1));
            let m = rng.urange(1, 64).min((cap / 2).max(1));
            (text(rng, n), text(rng, m))
        }
        _ => {
            // opaque tokens can be large
            let n = size_class(rng, big, cap).max(1);
            (rng.bytes(n), vec![])
        }
    };
    UserIdentity::new(rng.bool(), ty, p, s)
}

/// 0..n user variables, each sub-item kind at most as often as PS3.7 allows, total encoded
/// length ≤ 65 535 − `reserve`.
pub fn gen_user_variables(rng: &mut Rng, opts: &PduOpts, for_ac: bool) -> Vec<UserVariableItem> {
    let mut out: Vec<UserVariableItem> = Vec::new();
    if rng.chance(1, 20) {
        return out; // no user information item at all
    }
    let mut budget: usize = 65_535;
    let push = |out: &mut Vec<UserVariableItem>, u: UserVariableItem, budget: &mut usize| {
        let n = user_var_wire_len(&u);
        if n <= *budget {
            *budget -= n;
            out.push(u);
        }
    };
    if rng.chance(9, 10) {
        let v = match rng.below(8) {
            0 => 0,
            1 => u32::MAX,
            2 => 16_384,
            3 => 32_768,
            4 => 1_018,
            _ => rng.next_u32(),
        };
        push(&mut out, UserVariableItem::MaxLength(v), &mut budget);
    }
    if rng.chance(9, 10) {
        push(&mut out, UserVariableItem::ImplementationClassUID(gen_uid(rng)), &mut budget);
    }
    if rng.chance(1, 3) {
        let t = 0x53;
        push(
            &mut out,
            UserVariableItem::Unknown(t, defined_unknown_body(rng, t)),
            &mut budget,
        );
    }
    let n_role = if rng.chance(1, 2) { 0 } else { rng.urange(1, 4) };
    for _ in 0..n_role {
        push(
            &mut out,
            UserVariableItem::ScuScpRoleSelectionSubItem(
                gen_uid(rng),
                RequestorRoles {
                    scu: rng.bool(),
                    scp: rng.bool(),
                },
            ),
            &mut budget,
        );
    }
    if rng.chance(3, 4) {
        push(
            &mut out,
            UserVariableItem::ImplementationVersionName(gen_g0(rng, 16)),
            &mut budget,
        );
    }
    let n_ext = if rng.chance(1, 2) { 0 } else { rng.urange(1, 3) };
    for _ in 0..n_ext {
        let uid = gen_uid(rng);
        let cap = budget.saturating_sub(4 + 2 + uid.len());
        let n = size_class(rng, opts.big, cap.min(60_000));
        push(
            &mut out,
            UserVariableItem::SopClassExtendedNegotiationSubItem(uid, rng.bytes(n)),
            &mut budget,
        );
    }
    if rng.chance(1, 4) {
        let t = 0x57;
        push(
            &mut out,
            UserVariableItem::Unknown(t, defined_unknown_body(rng, t)),
            &mut budget,
        );
    }
    if rng.chance(1, 3) {
        if for_ac {
            // the acceptor answers with a 59H server response (kept as Unknown by the library)
            push(
                &mut out,
                UserVariableItem::Unknown(0x59, defined_unknown_body(rng, 0x59)),
                &mut budget,
            );
        } else {
            let cap = budget.saturating_sub(4).min(60_000);
            if cap > 16 {
                let ui = gen_user_identity(rng, opts.big, cap);
                push(&mut out, UserVariableItem::UserIdentityItem(ui), &mut budget);
            }
        }
    }
    // sub-items of types unknown to PS3.7 as well
    let n_unk = if rng.chance(2, 3) { 0 } else { rng.urange(1, 3) };
    for _ in 0..n_unk {
        let t = loop {
            let t = unknown_sub_item_type(rng);
            if !matches!(t, 0x53 | 0x57 | 0x59) {
                break t;
            }
        };
        let cap = budget.saturating_sub(4).min(65_531);
        let n = size_class(rng, opts.big, cap);
        push(&mut out, UserVariableItem::Unknown(t, rng.bytes(n)), &mut budget);
    }
    if rng.chance(1, 5) {
        rng.shuffle(&mut out);
    }
    out
}

fn gen_pc_ids(rng: &mut Rng, n: usize) -> Vec<u8> {
    let mut ids: Vec<u8> = (0..128u16).map(|i| (2 * i + 1) as u8).collect();
    if rng.chance(1, 3) {
        rng.shuffle(&mut ids);
        ids.truncate(n);
    } else {
        ids.truncate(n);
    }
    ids
}

fn n_pcs(rng: &mut Rng, max: usize) -> usize {
    let n = match rng.below(20) {
        0 => 0,
        1 => max,
        2 => rng.urange(0, max),
        3..=6 => rng.urange(2, 12),
        _ => rng.urange(1, 3),
    };
    n.min(max)
}

pub fn gen_app_ctx(rng: &mut Rng) -> String {
    if rng.chance(3, 4) {
        "1.2.840.10008.3.1.1.1".to_string()
    } else {
        gen_uid(rng)
    }
}

pub fn gen_rq(rng: &mut Rng, opts: &PduOpts) -> AssociationRQ {
    let n = n_pcs(rng, opts.max_pcs.min(128));
    let ids = gen_pc_ids(rng, n);
    let presentation_contexts = ids
        .into_iter()
        .map(|id| {
            let nts = if rng.chance(1, 12) {
                0
            } else {
                rng.urange(1, opts.max_ts.max(1))
            };
            PresentationContextProposed {
                id,
                abstract_syntax: gen_uid(rng),
                transfer_syntaxes: (0..nts.min(opts.max_ts)).map(|_| gen_uid(rng)).collect(),
            }
        })
        .collect();
    AssociationRQ {
        protocol_version: if rng.chance(4, 5) { 1 } else { rng.below(65536) as u16 },
        calling_ae_title: gen_ae_title(rng),
        called_ae_title: gen_ae_title(rng),
        application_context_name: gen_app_ctx(rng),
        presentation_contexts,
        user_variables: gen_user_variables(rng, opts, false),
    }
}

pub fn gen_ac(rng: &mut Rng, opts: &PduOpts) -> AssociationAC {
    let n = n_pcs(rng, opts.max_pcs.min(128));
    let ids = gen_pc_ids(rng, n);
    let presentation_contexts = ids
        .into_iter()
        .map(|id| {
            let reason = match rng.below(8) {
                0 => PresentationContextResultReason::UserRejection,
                1 => PresentationContextResultReason::NoReason,
                2 => PresentationContextResultReason::AbstractSyntaxNotSupported,
                3 => PresentationContextResultReason::TransferSyntaxesNotSupported,
                _ => PresentationContextResultReason::Acceptance,
            };
            // for a rejected context the transfer syntax is "not significant": sometimes empty
            let transfer_syntax =
                if reason != PresentationContextResultReason::Acceptance && rng.chance(1, 4) {
                    String::new()
                } else {
                    gen_uid(rng)
                };
            PresentationContextResult {
                id,
                reason,
                transfer_syntax,
            }
        })
        .collect();
    AssociationAC {
        protocol_version: if rng.chance(4, 5) { 1 } else { rng.below(65536) as u16 },
        calling_ae_title: gen_ae_title(rng),
        called_ae_title: gen_ae_title(rng),
        application_context_name: gen_app_ctx(rng),
        presentation_contexts,
        user_variables: gen_user_variables(rng, opts, true),
    }
}

/// All (result-independent) reject sources PS3.8 Table 9-21 enumerates, incl. reserved codes.
pub fn all_rj_sources() -> Vec<AssociationRJSource> {
    use AssociationRJServiceProviderASCEReason as A;
    use AssociationRJServiceProviderPresentationReason as P;
    use AssociationRJServiceUserReason as U;
    let mut v = vec![
        AssociationRJSource::ServiceUser(U::NoReasonGiven),
        AssociationRJSource::ServiceUser(U::ApplicationContextNameNotSupported),
        AssociationRJSource::ServiceUser(U::CallingAETitleNotRecognized),
        AssociationRJSource::ServiceUser(U::CalledAETitleNotRecognized),
        AssociationRJSource::ServiceProviderASCE(A::NoReasonGiven),
        AssociationRJSource::ServiceProviderASCE(A::ProtocolVersionNotSupported),
        AssociationRJSource::ServiceProviderPresentation(P::TemporaryCongestion),
        AssociationRJSource::ServiceProviderPresentation(P::LocalLimitExceeded),
    ];
    for x in [4u8, 5, 6, 8, 9, 10] {
        v.push(AssociationRJSource::ServiceUser(U::Reserved(x)));
    }
    for x in [0u8, 3, 4, 5, 6, 7] {
        v.push(AssociationRJSource::ServiceProviderPresentation(P::Reserved(x)));
    }
    v
}

pub fn all_abort_sources() -> Vec<AbortRQSource> {
    use AbortRQServiceProviderReason as R;
    vec![
        AbortRQSource::ServiceUser,
        AbortRQSource::Reserved,
        AbortRQSource::ServiceProvider(R::ReasonNotSpecified),
        AbortRQSource::ServiceProvider(R::UnrecognizedPdu),
        AbortRQSource::ServiceProvider(R::UnexpectedPdu),
        AbortRQSource::ServiceProvider(R::Reserved),
        AbortRQSource::ServiceProvider(R::UnrecognizedPduParameter),
        AbortRQSource::ServiceProvider(R::UnexpectedPduParameter),
        AbortRQSource::ServiceProvider(R::InvalidPduParameter),
    ]
}

pub fn gen_rj(rng: &mut Rng) -> AssociationRJ {
    let srcs = all_rj_sources();
    AssociationRJ {
        result: if rng.bool() {
            AssociationRJResult::Permanent
        } else {
            AssociationRJResult::Transient
        },
        source: rng.pick(&srcs).clone(),
    }
}

#[derive(Clone, Debug)]
pub struct PDataOpts {
    pub max_pdvs: usize,
    /// upper bound on the PDU-length field (sum over PDVs of 6 + data)
    pub max_len: usize,
    /// if set, the PDU-length field is exactly this value (≥ 6)
    pub exact_len: Option<usize>,
    pub allow_empty: bool,
}

impl Default for PDataOpts {
    fn default() -> Self {
        PDataOpts {
            max_pdvs: 5,
            max_len: 70_000,
            exact_len: None,
            allow_empty: true,
        }
    }
}

pub fn gen_pdv(rng: &mut Rng, n: usize) -> PDataValue {
    let data = match rng.below(4) {
        0 => vec![rng.below(256) as u8; n],
        _ => rng.bytes(n),
    };
    PDataValue {
        presentation_context_id: (2 * rng.below(128) + 1) as u8,
        value_type: if rng.bool() {
            PDataValueType::Command
        } else {
            PDataValueType::Data
        },
        is_last: rng.bool(),
        data,
    }
}

/// A P-DATA-TF PDU. The PDU-length field of the result is Σ (6 + data length).
pub fn gen_pdata(rng: &mut Rng, o: &PDataOpts) -> Pdu {
    if let Some(total) = o.exact_len {
        assert!(total >= 6);
        let max_k = (total / 6).min(o.max_pdvs.max(1));
        let k = if rng.chance(2, 3) { 1 } else { rng.urange(1, max_k) };
        let mut room = total - 6 * k;
        let mut data = Vec::new();
        for i in 0..k {
            let n = if i + 1 == k { room } else { rng.urange(0, room) };
            room -= n;
            data.push(gen_pdv(rng, n));
        }
        return Pdu::PData { data };
    }
    if o.allow_empty && rng.chance(1, 60) {
        return Pdu::PData { data: vec![] };
    }
    let k = if rng.chance(2, 3) { 1 } else { rng.urange(1, o.max_pdvs.max(1)) };
    let k = k.min((o.max_len / 6).max(1));
    let mut room = o.max_len.saturating_sub(6 * k);
    let mut data = Vec::new();
    for _ in 0..k {
        let n = match rng.below(24) {
            0 => room,
            1 => rng.urange(0, room),
            2..=4 => rng.urange(0, room.min(4096)),
            5..=9 => rng.urange(0, room.min(300)),
            10..=11 => 0,
            _ => rng.urange(0, room.min(32)),
        };
        room -= n;
        data.push(gen_pdv(rng, n));
    }
    Pdu::PData { data }
}

pub fn gen_unknown(rng: &mut Rng, max_payload: usize) -> Pdu {
    let pdu_type = loop {
        let t = match rng.below(3) {
            0 => *rng.pick(&[0u8, 8, 9, 0x10, 0x50, 0xFF]),
            _ => rng.below(256) as u8,
        };
        if !known_pdu_type(t) {
            break t;
        }
    };
    let n = match rng.below(16) {
        0 => max_payload,
        1 => rng.urange(0, max_payload),
        2..=3 => 0,
        4..=7 => rng.urange(0, max_payload.min(300)),
        _ => rng.urange(0, max_payload.min(16)),
    };
    Pdu::Unknown {
        pdu_type,
        data: rng.bytes(n),
    }
}

pub fn gen_pdu_of(rng: &mut Rng, kind: Kind, opts: &PduOpts) -> Pdu {
    match kind {
        Kind::Rq => Pdu::AssociationRQ(gen_rq(rng, opts)),
        Kind::Ac => Pdu::AssociationAC(gen_ac(rng, opts)),
        Kind::Rj => Pdu::AssociationRJ(gen_rj(rng)),
        Kind::PData => gen_pdata(
            rng,
            &PDataOpts {
                max_len: opts.max_payload.max(6),
                ..Default::default()
            },
        ),
        Kind::ReleaseRq => Pdu::ReleaseRQ,
        Kind::ReleaseRp => Pdu::ReleaseRP,
        Kind::Abort => Pdu::AbortRQ {
            source: rng.pick(&all_abort_sources()).clone(),
        },
        Kind::Unknown => gen_unknown(rng, opts.max_payload),
    }
}

/// One well-formed PDU; association PDUs and P-DATA are drawn more often than the fixed ones.
pub fn gen_pdu(rng: &mut Rng, opts: &PduOpts) -> Pdu {
    let kind = match &opts.kinds {
        Some(k) => *rng.pick(k),
        None => match rng.below(20) {
            0..=5 => Kind::Rq,
            6..=10 => Kind::Ac,
            11 => Kind::Rj,
            12..=15 => Kind::PData,
            16 => Kind::ReleaseRq,
            17 => Kind::ReleaseRp,
            18 => Kind::Abort,
            _ => Kind::Unknown,
        },
    };
    gen_pdu_of(rng, kind, opts)
}

pub fn kind_of(p: &Pdu) -> Kind {
    match p {
        Pdu::Unknown { .. } => Kind::Unknown,
        Pdu::AssociationRQ(_) => Kind::Rq,
        Pdu::AssociationAC(_) => Kind::Ac,
        Pdu::AssociationRJ(_) => Kind::Rj,
        Pdu::PData { .. } => Kind::PData,
        Pdu::ReleaseRQ => Kind::ReleaseRq,
        Pdu::ReleaseRP => Kind::ReleaseRp,
        Pdu::AbortRQ { .. } => Kind::Abort,
    }
}

pub fn kind_name(k: Kind) -> &'static str {
    match k {
        Kind::Rq => "rq",
        Kind::Ac => "ac",
        Kind::Rj => "rj",
        Kind::PData => "pdata",
        Kind::ReleaseRq => "release_rq",
        Kind::ReleaseRp => "release_rp",
        Kind::Abort => "abort",
        Kind::Unknown => "unknown",
    }
}

pub fn user_var_name(u: &UserVariableItem) -> String {
    match u {
        UserVariableItem::Unknown(t, _) => match t {
            0x53 | 0x57 | 0x59 => format!("unknown{:02X}", t),
            _ => "unknown".to_string(),
        },
        UserVariableItem::MaxLength(_) => "max_length".into(),
        UserVariableItem::ImplementationClassUID(_) => "impl_class_uid".into(),
        UserVariableItem::ImplementationVersionName(_) => "impl_version".into(),
        UserVariableItem::SopClassExtendedNegotiationSubItem(..) => "ext_neg".into(),
        UserVariableItem::ScuScpRoleSelectionSubItem(..) => "role".into(),
        UserVariableItem::UserIdentityItem(_) => "user_identity".into(),
    }
}

// ---------------------------------------------------------------------------------------------
// CRC-32 (IEEE 802.3, same polynomial as zlib.crc32) — used to describe large payloads compactly.

pub fn crc32(data: &[u8]) -> u32 {
    static TABLE: std::sync::OnceLock<[u32; 256]> = std::sync::OnceLock::new();
    let t = TABLE.get_or_init(|| {
        let mut t = [0u32; 256];
        for (i, e) in t.iter_mut().enumerate() {
            let mut c = i as u32;
            for _ in 0..8 {
                c = if c & 1 != 0 { 0xEDB8_8320 ^ (c >> 1) } else { c >> 1 };
            }
            *e = c;
        }
        t
    });
    let mut c = 0xFFFF_FFFFu32;
    for b in data {
        c = t[((c ^ *b as u32) & 0xFF) as usize] ^ (c >> 8);
    }
    c ^ 0xFFFF_FFFF
}

fn blob(d: &[u8]) -> Value {
    json!({"len": d.len(), "crc": crc32(d)})
}

/// Code tables from PS3.8 Table 9-21 (A-ASSOCIATE-RJ): (source, reason).
pub fn rj_codes(s: &AssociationRJSource) -> (u8, u8) {
    use AssociationRJServiceProviderASCEReason as A;
    use AssociationRJServiceProviderPresentationReason as P;
    use AssociationRJServiceUserReason as U;
    match s {
        AssociationRJSource::ServiceUser(r) => (
            1,
            match r {
                U::NoReasonGiven => 1,
                U::ApplicationContextNameNotSupported => 2,
                U::CallingAETitleNotRecognized => 3,
                U::CalledAETitleNotRecognized => 7,
                U::Reserved(x) => *x,
            },
        ),
        AssociationRJSource::ServiceProviderASCE(r) => (
            2,
            match r {
                A::NoReasonGiven => 1,
                A::ProtocolVersionNotSupported => 2,
            },
        ),
        AssociationRJSource::ServiceProviderPresentation(r) => (
            3,
            match r {
                P::TemporaryCongestion => 1,
                P::LocalLimitExceeded => 2,
                P::Reserved(x) => *x,
            },
        ),
    }
}

/// Code table from PS3.8 Table 9-26 (A-ABORT): (source, reason).
pub fn abort_codes(s: &AbortRQSource) -> (u8, u8) {
    use AbortRQServiceProviderReason as R;
    match s {
        AbortRQSource::ServiceUser => (0, 0),
        AbortRQSource::Reserved => (1, 0),
        AbortRQSource::ServiceProvider(r) => (
            2,
            match r {
                R::ReasonNotSpecified => 0,
                R::UnrecognizedPdu => 1,
                R::UnexpectedPdu => 2,
                R::Reserved => 3,
                R::UnrecognizedPduParameter => 4,
                R::UnexpectedPduParameter => 5,
                R::InvalidPduParameter => 6,
            },
        ),
    }
}

fn user_identity_code(t: &UserIdentityType) -> u8 {
    // PS3.7 Table D.3-14
    match t {
        UserIdentityType::Username => 1,
        UserIdentityType::UsernamePassword => 2,
        UserIdentityType::KerberosServiceTicket => 3,
        UserIdentityType::SamlAssertion => 4,
        UserIdentityType::Jwt => 5,
        _ => 0,
    }
}

fn user_vars_json(us: &[UserVariableItem]) -> Value {
    Value::Array(
        us.iter()
            .map(|u| match u {
                UserVariableItem::Unknown(t, d) => json!({"t": "other", "type": t, "data": blob(d)}),
                UserVariableItem::MaxLength(v) => json!({"t": "max_length", "v": v}),
                UserVariableItem::ImplementationClassUID(s) => json!({"t": "impl_class_uid", "v": s}),
                UserVariableItem::ImplementationVersionName(s) => json!({"t": "impl_version", "v": s}),
                UserVariableItem::SopClassExtendedNegotiationSubItem(uid, d) => {
                    json!({"t": "ext_neg", "uid": uid, "data": blob(d)})
                }
                UserVariableItem::ScuScpRoleSelectionSubItem(uid, r) => {
                    json!({"t": "role", "uid": uid, "scu": r.scu as u8, "scp": r.scp as u8})
                }
                UserVariableItem::UserIdentityItem(ui) => json!({
                    "t": "user_identity",
                    "id_type": user_identity_code(&ui.identity_type()),
                    "positive": ui.positive_response_requested() as u8,
                    "primary": blob(&ui.primary_field()),
                    "secondary": blob(&ui.secondary_field()),
                }),
            })
            .collect(),
    )
}

/// Abstract description of a PDU (what an independent PS3.8 decoder must find in its encoding).
pub fn pdu_json(p: &Pdu) -> Value {
    match p {
        Pdu::Unknown { pdu_type, data } => json!({"type": "unknown", "pdu_type": pdu_type, "data": blob(data)}),
        Pdu::AssociationRQ(rq) => json!({
            "type": "rq",
            "protocol_version": rq.protocol_version,
            "called": rq.called_ae_title,
            "calling": rq.calling_ae_title,
            "app_ctx": rq.application_context_name,
            "pcs": rq.presentation_contexts.iter().map(|pc| json!({
                "id": pc.id, "abstract": pc.abstract_syntax, "ts": pc.transfer_syntaxes})).collect::<Vec<_>>(),
            "user": user_vars_json(&rq.user_variables),
        }),
        Pdu::AssociationAC(ac) => json!({
            "type": "ac",
            "protocol_version": ac.protocol_version,
            "called": ac.called_ae_title,
            "calling": ac.calling_ae_title,
            "app_ctx": ac.application_context_name,
            "pcs": ac.presentation_contexts.iter().map(|pc| json!({
                "id": pc.id,
                "reason": match pc.reason {
                    PresentationContextResultReason::Acceptance => 0,
                    PresentationContextResultReason::UserRejection => 1,
                    PresentationContextResultReason::NoReason => 2,
                    PresentationContextResultReason::AbstractSyntaxNotSupported => 3,
                    PresentationContextResultReason::TransferSyntaxesNotSupported => 4,
                },
                "ts": pc.transfer_syntax})).collect::<Vec<_>>(),
            "user": user_vars_json(&ac.user_variables),
        }),
        Pdu::AssociationRJ(rj) => {
            let (s, r) = rj_codes(&rj.source);
            json!({
                "type": "rj",
                "result": match rj.result { AssociationRJResult::Permanent => 1, AssociationRJResult::Transient => 2 },
                "source": s,
                "reason": r,
            })
        }
        Pdu::PData { data } => json!({
            "type": "pdata",
            "pdvs": data.iter().map(|v| json!({
                "pc": v.presentation_context_id,
                "command": matches!(v.value_type, PDataValueType::Command) as u8,
                "last": v.is_last as u8,
                "data": blob(&v.data)})).collect::<Vec<_>>(),
        }),
        Pdu::ReleaseRQ => json!({"type": "release_rq"}),
        Pdu::ReleaseRP => json!({"type": "release_rp"}),
        Pdu::AbortRQ { source } => {
            let (s, r) = abort_codes(source);
            json!({"type": "abort", "source": s, "reason": r})
        }
    }
}

/// Short human-readable summary for witnesses (full Debug output can be megabytes).
pub fn pdu_brief(p: &Pdu) -> String {
    let d = format!("{:?}", p);
    if d.len() <= 600 {
        d
    } else {
        let cut = (0..=600).rev().find(|i| d.is_char_boundary(*i)).unwrap_or(0);
        format!("{}…(+{} chars)", &d[..cut], d.len() - cut)
    }
}

// ---------------------------------------------------------------------------------------------
// Independent size model (PS3.8 §9.3 layouts): number of bytes a PDU must occupy on the wire.

pub fn user_info_wire_len(us: &[UserVariableItem]) -> usize {
    if us.is_empty() {
        // the library omits the user information item when there are no sub-items
        0
    } else {
        4 + us.iter().map(user_var_wire_len).sum::<usize>()
    }
}

pub fn pc_proposed_wire_len(pc: &PresentationContextProposed) -> usize {
    4 + 4 + 4 + pc.abstract_syntax.len() + pc.transfer_syntaxes.iter().map(|t| 4 + t.len()).sum::<usize>()
}

pub fn pc_result_wire_len(pc: &PresentationContextResult) -> usize {
    4 + 4 + 4 + pc.transfer_syntax.len()
}

/// Total encoded size (6-byte PDU header included). Strings are single-byte (G0 / UID repertoire).
pub fn pdu_wire_len(p: &Pdu) -> usize {
    6 + match p {
        Pdu::Unknown { data, .. } => data.len(),
        Pdu::AssociationRQ(rq) => {
            68 + 4
                + rq.application_context_name.len()
                + rq.presentation_contexts.iter().map(pc_proposed_wire_len).sum::<usize>()
                + user_info_wire_len(&rq.user_variables)
        }
        Pdu::AssociationAC(ac) => {
            68 + 4
                + ac.application_context_name.len()
                + ac.presentation_contexts.iter().map(pc_result_wire_len).sum::<usize>()
                + user_info_wire_len(&ac.user_variables)
        }
        Pdu::AssociationRJ(_) | Pdu::ReleaseRQ | Pdu::ReleaseRP | Pdu::AbortRQ { .. } => 4,
        Pdu::PData { data } => data.iter().map(|v| 6 + v.data.len()).sum::<usize>(),
    }
}
