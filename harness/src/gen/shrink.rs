//! Greedy structural shrinker for abstract data sets: removes elements, items and nested
//! elements while the predicate (the violation still reproduces) keeps holding.

use super::tree::*;

fn try_remove(ds: &mut Vec<GElem>, pred: &dyn Fn(&[GElem]) -> bool, root: &mut dyn FnMut(&Vec<GElem>) -> Vec<GElem>) {
    let _ = (ds, pred, root);
}

/// all single-step reductions of a data set
fn reductions(ds: &[GElem]) -> Vec<Vec<GElem>> {
    let mut out = Vec::new();
    for i in 0..ds.len() {
        // drop element i
        let mut v = ds.to_vec();
        v.remove(i);
        out.push(v);
    }
    for i in 0..ds.len() {
        match &ds[i].val {
            GVal::Seq(s) => {
                for j in 0..s.items.len() {
                    let mut v = ds.to_vec();
                    if let GVal::Seq(s2) = &mut v[i].val {
                        s2.items.remove(j);
                    }
                    out.push(v);
                }
                for j in 0..s.items.len() {
                    for sub in reductions(&s.items[j].elems) {
                        let mut v = ds.to_vec();
                        if let GVal::Seq(s2) = &mut v[i].val {
                            s2.items[j].elems = sub;
                        }
                        out.push(v);
                    }
                }
            }
            GVal::Pix { bot, frags } => {
                for j in 0..frags.len() {
                    let mut v = ds.to_vec();
                    if let GVal::Pix { frags: f2, .. } = &mut v[i].val {
                        f2.remove(j);
                    }
                    out.push(v);
                }
                if !bot.is_empty() {
                    let mut v = ds.to_vec();
                    if let GVal::Pix { bot: b2, .. } = &mut v[i].val {
                        b2.clear();
                    }
                    out.push(v);
                }
            }
            _ => {}
        }
    }
    out
}

pub fn shrink(ds: &[GElem], pred: &dyn Fn(&[GElem]) -> bool, max_steps: usize) -> Vec<GElem> {
    let _ = try_remove;
    let mut cur = ds.to_vec();
    let mut steps = 0;
    'outer: loop {
        for cand in reductions(&cur) {
            steps += 1;
            if steps > max_steps {
                break 'outer;
            }
            if pred(&cand) {
                cur = cand;
                continue 'outer;
            }
        }
        break;
    }
    cur
}
