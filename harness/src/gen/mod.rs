pub mod ds;
pub mod tree;
