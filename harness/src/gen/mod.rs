pub mod ds;
pub mod pdu;
pub mod img;
pub mod rle;
pub mod tree;
pub mod shrink;
