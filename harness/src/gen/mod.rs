pub mod ds;
pub mod tree;
pub mod shrink;
