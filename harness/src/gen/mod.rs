pub mod ds;
pub mod pdu;
pub mod tree;
pub mod shrink;
