pub mod ds;
pub mod img;
pub mod rle;
pub mod tree;
