//! Result collection and the parallel case runner shared by all property workloads.
//!
//! Every workload reports: evaluations, a set of distinct coverage classes, a few written-out
//! samples, named counters and violations. A violation carries a *key* (normalised signature used
//! to match known findings), a human description and a replay document.

use crate::rng::Rng;
use serde_json::{json, Map, Value};
use std::cell::RefCell;
use std::collections::{BTreeMap, BTreeSet};
use std::panic::{catch_unwind, AssertUnwindSafe};
use std::sync::atomic::{AtomicBool, AtomicU64, Ordering};
use std::sync::Mutex;
use std::time::{Duration, Instant};

#[derive(Clone, Debug)]
pub struct Cfg {
    pub prop: String,
    pub tier: String,
    pub seed: u64,
    pub threads: usize,
    pub out: String,
    pub input: Option<String>,
    /// re-run exactly one case index (replay)
    pub only_case: Option<u64>,
    pub extra: Vec<String>,
    /// multiplicative factor on case counts (VERIF_SCALE, default 1.0)
    pub scale: f64,
}

impl Cfg {
    pub fn thorough(&self) -> bool {
        self.tier == "thorough"
    }
    /// pick a count by tier and apply scale
    pub fn n(&self, quick: u64, thorough: u64) -> u64 {
        let base = if self.thorough() { thorough } else { quick };
        ((base as f64 * self.scale) as u64).max(1)
    }
    pub fn has_flag(&self, f: &str) -> bool {
        self.extra.iter().any(|x| x == f)
    }
    pub fn opt(&self, name: &str) -> Option<String> {
        let mut it = self.extra.iter();
        while let Some(x) = it.next() {
            if x == name {
                return it.next().cloned();
            }
        }
        None
    }
}

#[derive(Default, Debug)]
pub struct Viol {
    pub what: String,
    pub replay: Value,
    pub count: u64,
}

/// Per-thread (or single-threaded) accumulation; merged at the end.
#[derive(Default, Debug)]
pub struct Local {
    pub evaluations: u64,
    pub classes: BTreeSet<String>,
    pub samples: Vec<Value>,
    pub counters: BTreeMap<String, u64>,
    pub violations: BTreeMap<String, Viol>,
    pub notes: BTreeSet<String>,
    pub sample_cap: usize,
}

impl Local {
    pub fn new() -> Self {
        Local {
            sample_cap: 4,
            ..Default::default()
        }
    }
    pub fn eval(&mut self) {
        self.evaluations += 1;
    }
    pub fn evals(&mut self, n: u64) {
        self.evaluations += n;
    }
    pub fn class(&mut self, c: impl Into<String>) {
        if self.classes.len() < 2_000_000 {
            self.classes.insert(c.into());
        }
    }
    pub fn count(&mut self, name: &str, n: u64) {
        *self.counters.entry(name.to_string()).or_insert(0) += n;
    }
    pub fn want_sample(&self) -> bool {
        self.samples.len() < self.sample_cap
    }
    pub fn sample(&mut self, v: Value) {
        if self.samples.len() < self.sample_cap {
            self.samples.push(v);
        }
    }
    pub fn note(&mut self, s: impl Into<String>) {
        self.notes.insert(s.into());
    }
    pub fn violation(&mut self, key: impl Into<String>, what: impl Into<String>, replay: Value) {
        let key = key.into();
        let e = self.violations.entry(key).or_default();
        if e.count == 0 {
            e.what = what.into();
            e.replay = replay;
        }
        e.count += 1;
    }
    pub fn merge(&mut self, o: Local) {
        self.evaluations += o.evaluations;
        self.classes.extend(o.classes);
        for s in o.samples {
            if self.samples.len() < self.sample_cap.max(5) {
                self.samples.push(s);
            }
        }
        for (k, v) in o.counters {
            *self.counters.entry(k).or_insert(0) += v;
        }
        for (k, v) in o.violations {
            let e = self.violations.entry(k).or_default();
            if e.count == 0 {
                e.what = v.what;
                e.replay = v.replay;
            }
            e.count += v.count;
        }
        self.notes.extend(o.notes);
    }
}

thread_local! {
    static LAST_PANIC: RefCell<Option<String>> = const { RefCell::new(None) };
}

/// Install a quiet panic hook that records message + location per thread.
pub fn install_panic_hook() {
    std::panic::set_hook(Box::new(|info| {
        let msg = if let Some(s) = info.payload().downcast_ref::<&str>() {
            s.to_string()
        } else if let Some(s) = info.payload().downcast_ref::<String>() {
            s.clone()
        } else {
            "<non-string panic>".to_string()
        };
        let loc = info
            .location()
            .map(|l| format!("{}:{}", l.file(), l.line()))
            .unwrap_or_else(|| "?".into());
        LAST_PANIC.with(|p| *p.borrow_mut() = Some(format!("{} @ {}", msg, loc)));
    }));
}

pub fn take_panic() -> String {
    LAST_PANIC
        .with(|p| p.borrow_mut().take())
        .unwrap_or_else(|| "<unknown panic>".into())
}

/// Location part of a recorded panic (`file:line`), used for violation keys.
pub fn panic_loc(p: &str) -> String {
    let loc = p.rsplit(" @ ").next().unwrap_or("?");
    // strip everything before the crate-relative path to keep keys stable
    let loc = loc.trim_start_matches("/repo/");
    // standard library locations: drop the toolchain-specific prefix
    if let Some(i) = loc.find("/library/") {
        if loc.starts_with("/rustc/") {
            return format!("std:{}", &loc[i + 9..]);
        }
    }
    // alternative repository trees (mutant testing) map to the same keys
    if let Ok(repo) = std::env::var("VERIF_REPO") {
        if let Some(rest) = loc.strip_prefix(&format!("{}/", repo.trim_end_matches('/'))) {
            return rest.to_string();
        }
    }
    loc.to_string()
}

/// Run `f` catching panics; returns Err(panic description).
pub fn guarded<T>(f: impl FnOnce() -> T) -> Result<T, String> {
    match catch_unwind(AssertUnwindSafe(f)) {
        Ok(v) => Ok(v),
        Err(_) => Err(take_panic()),
    }
}

pub struct RunLimits {
    pub cases: u64,
    pub wall: Duration,
}

/// Run `cases` cases on `cfg.threads` threads. Each case gets its own PRNG derived from
/// (seed, stream, index). Panics escaping the case body are recorded as violations with key
/// `panic|<location>` (workloads that expect panics catch them themselves with `guarded`).
pub fn run_parallel<F>(cfg: &Cfg, stream: u64, limits: RunLimits, f: F) -> Local
where
    F: Fn(&mut Local, &mut Rng, u64) + Sync,
{
    // crash triage (driver): `--only-stream S` restricts a re-run to one workload stream
    if let Some(s) = cfg.opt("--only-stream") {
        if s.parse::<u64>().ok() != Some(stream) {
            return Local::new();
        }
    }
    // in-flight record: each worker thread notes the case it is about to run in its own 8-byte
    // slot of `<out>/progress.<stream>.bin`; the file is removed when the workload ends normally.
    // If the process dies (abort, stack overflow, OOM kill) the driver finds the cases that were
    // in flight there and re-runs each one alone under resource limits to attribute the crash.
    let progress_path = format!("{}/progress.{}.bin", cfg.out, stream);
    let progress = if cfg.only_case.is_none() {
        std::fs::File::create(&progress_path).ok()
    } else {
        None
    };
    if let Some(f) = &progress {
        use std::os::unix::fs::FileExt;
        let blank = vec![0xFFu8; 8 * cfg.threads.max(1)];
        let _ = f.write_at(&blank, 0);
    }
    let slot_counter = AtomicU64::new(0);
    // stuck-case watcher state: per worker (current case, thread CPU time at its start, CPU clock id)
    let watch: Vec<(AtomicU64, AtomicU64, std::sync::atomic::AtomicI64)> = (0..cfg.threads.max(1))
        .map(|_| (AtomicU64::new(u64::MAX), AtomicU64::new(0), std::sync::atomic::AtomicI64::new(i64::MIN)))
        .collect();
    let finished = AtomicU64::new(0);
    let next = AtomicU64::new(0);
    let stop = AtomicBool::new(false);
    let merged = Mutex::new(Local::new());
    let start = Instant::now();
    let (lo, hi) = match cfg.only_case {
        Some(i) => (i, i + 1),
        None => (0, limits.cases),
    };
    next.store(lo, Ordering::SeqCst);
    let threads = if cfg.only_case.is_some() {
        1
    } else {
        cfg.threads.max(1)
    };
    std::thread::scope(|s| {
        if cfg.only_case.is_none() {
            // A case that burns more than STUCK_CPU_S seconds of its worker's CPU time never
            // returns for practical purposes: leave the process with exit code 86 so that the
            // driver re-runs the in-flight cases alone (crash triage). CPU time, not wall time:
            // the verdict does not depend on the load of the machine.
            s.spawn(|| {
                let budget_ns = std::env::var("VERIF_STUCK_CPU_S").ok().and_then(|v| v.parse::<u64>().ok()).unwrap_or(150) * 1_000_000_000;
                let mut suspect: Vec<u64> = vec![u64::MAX; watch.len()];
                while finished.load(Ordering::SeqCst) < threads as u64 {
                    std::thread::sleep(Duration::from_millis(500));
                    for (i, w) in watch.iter().enumerate() {
                        let idx = w.0.load(Ordering::SeqCst);
                        let clk = w.2.load(Ordering::SeqCst);
                        if idx == u64::MAX || clk == i64::MIN {
                            suspect[i] = u64::MAX;
                            continue;
                        }
                        let used = thread_cpu_ns(clk as libc::clockid_t).saturating_sub(w.1.load(Ordering::SeqCst));
                        if used > budget_ns && w.0.load(Ordering::SeqCst) == idx {
                            if suspect[i] == idx {
                                eprintln!("[stuck] stream {} case {} has used {} s of CPU time without returning", stream, idx, used / 1_000_000_000);
                                std::process::exit(86);
                            }
                            suspect[i] = idx;
                        } else {
                            suspect[i] = u64::MAX;
                        }
                    }
                }
            });
        }
        for _ in 0..threads {
            s.spawn(|| {
                use std::os::unix::fs::FileExt;
                let slot = slot_counter.fetch_add(1, Ordering::Relaxed);
                let mut clk: libc::clockid_t = 0;
                let have_clk = unsafe { libc::pthread_getcpuclockid(libc::pthread_self(), &mut clk) } == 0;
                if have_clk {
                    watch[slot as usize].2.store(clk as i64, Ordering::SeqCst);
                }
                let mut local = Local::new();
                loop {
                    if stop.load(Ordering::Relaxed) {
                        break;
                    }
                    let base = next.fetch_add(16, Ordering::Relaxed);
                    if base >= hi {
                        break;
                    }
                    for idx in base..(base + 16).min(hi) {
                        if let Some(f) = &progress {
                            let _ = f.write_at(&idx.to_le_bytes(), 8 * slot);
                        }
                        if have_clk {
                            watch[slot as usize].0.store(u64::MAX, Ordering::SeqCst);
                            watch[slot as usize].1.store(thread_cpu_ns(clk), Ordering::SeqCst);
                            watch[slot as usize].0.store(idx, Ordering::SeqCst);
                        }
                        let mut rng = Rng::derive(cfg.seed, stream, idx);
                        let r = catch_unwind(AssertUnwindSafe(|| f(&mut local, &mut rng, idx)));
                        if r.is_err() {
                            let p = take_panic();
                            local.violation(
                                format!("panic|{}", panic_loc(&p)),
                                format!("panic in case {}: {}", idx, p),
                                json!({"seed": cfg.seed, "stream": stream, "case": idx}),
                            );
                        }
                    }
                    if start.elapsed() > limits.wall {
                        stop.store(true, Ordering::Relaxed);
                        local.note(format!(
                            "wall budget of {:?} reached; stopped taking new cases",
                            limits.wall
                        ));
                    }
                }
                if let Some(f) = &progress {
                    let _ = f.write_at(&u64::MAX.to_le_bytes(), 8 * slot);
                }
                watch[slot as usize].0.store(u64::MAX, Ordering::SeqCst);
                watch[slot as usize].2.store(i64::MIN, Ordering::SeqCst);
                merged.lock().unwrap().merge(local);
                finished.fetch_add(1, Ordering::SeqCst);
            });
        }
    });
    if progress.is_some() {
        let _ = std::fs::remove_file(&progress_path);
    }
    merged.into_inner().unwrap()
}

fn thread_cpu_ns(clock: libc::clockid_t) -> u64 {
    let mut ts = libc::timespec { tv_sec: 0, tv_nsec: 0 };
    if unsafe { libc::clock_gettime(clock, &mut ts) } != 0 {
        return 0;
    }
    ts.tv_sec as u64 * 1_000_000_000 + ts.tv_nsec as u64
}

/// Final result document consumed by the `check` driver.
pub struct Outcome {
    pub local: Local,
    pub rule: String,
    pub exhaustive: bool,
    pub min_evaluations: u64,
    pub min_classes: u64,
    pub extra: Map<String, Value>,
    pub inconclusive: Option<String>,
}

impl Outcome {
    pub fn new(local: Local, rule: &str) -> Self {
        Outcome {
            local,
            rule: rule.to_string(),
            exhaustive: false,
            min_evaluations: 1,
            min_classes: 2,
            extra: Map::new(),
            inconclusive: None,
        }
    }
    pub fn to_json(&self, cfg: &Cfg, wall_s: f64) -> Value {
        let mut inconclusive = self.inconclusive.clone();
        if cfg.only_case.is_none() {
            if self.local.evaluations < self.min_evaluations {
                inconclusive = Some(format!(
                    "only {} evaluations observed (floor {})",
                    self.local.evaluations, self.min_evaluations
                ));
            } else if (self.local.classes.len() as u64) < self.min_classes {
                inconclusive = Some(format!(
                    "only {} coverage classes observed (floor {})",
                    self.local.classes.len(),
                    self.min_classes
                ));
            }
        }
        let viol: Vec<Value> = self
            .local
            .violations
            .iter()
            .map(|(k, v)| json!({"key": k, "what": v.what, "replay": v.replay, "count": v.count}))
            .collect();
        let class_list: Vec<&String> = self.local.classes.iter().take(400).collect();
        json!({
            "property_id": cfg.prop,
            "tier": cfg.tier,
            "seed": cfg.seed,
            "evaluations": self.local.evaluations,
            "distinct_nontrivial": self.local.classes.len(),
            "classes_head": class_list,
            "rule": self.rule,
            "samples": self.local.samples,
            "counters": self.local.counters,
            "notes": self.local.notes,
            "violations": viol,
            "exhaustive": self.exhaustive,
            "inconclusive": inconclusive,
            "extra": self.extra,
            "wall_s": wall_s,
        })
    }
}

/// Display text of an error and of its sources (cheap: never formats captured backtraces,
/// whose symbolisation costs milliseconds per error).
pub fn err_chain(e: &dyn std::error::Error) -> String {
    let mut s = e.to_string();
    let mut cur = e.source();
    let mut n = 0;
    while let Some(c) = cur {
        s.push_str(" <- ");
        s.push_str(&c.to_string());
        cur = c.source();
        n += 1;
        if n > 8 {
            break;
        }
    }
    s.chars().take(400).collect()
}

/// Normalised class of an error message for violation keys: digits and hex runs removed.
pub fn err_class(msg: &str) -> String {
    let mut out = String::new();
    let mut last_hash = false;
    for c in msg.chars() {
        if c.is_ascii_digit() {
            if !last_hash {
                out.push('#');
                last_hash = true;
            }
        } else {
            out.push(c);
            last_hash = false;
        }
    }
    out.chars().take(70).collect()
}

pub fn hex(b: &[u8]) -> String {
    const H: &[u8; 16] = b"0123456789abcdef";
    let mut s = String::with_capacity(b.len() * 2);
    for x in b {
        s.push(H[(x >> 4) as usize] as char);
        s.push(H[(x & 15) as usize] as char);
    }
    s
}

pub fn unhex(s: &str) -> Vec<u8> {
    let b = s.as_bytes();
    let v = |c: u8| -> u8 {
        match c {
            b'0'..=b'9' => c - b'0',
            b'a'..=b'f' => c - b'a' + 10,
            b'A'..=b'F' => c - b'A' + 10,
            _ => 0,
        }
    };
    (0..b.len() / 2).map(|i| v(b[2 * i]) << 4 | v(b[2 * i + 1])).collect()
}

/// hex with truncation for witness output
pub fn hex_short(b: &[u8], max: usize) -> String {
    if b.len() <= max {
        hex(b)
    } else {
        format!("{}..(+{} bytes)", hex(&b[..max]), b.len() - max)
    }
}
