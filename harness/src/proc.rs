//! Helpers for the checks that drive the real tool binaries (C32, C33, C35):
//! locating the binaries, bounded process execution, child guards, loopback ports, tree snapshots.
//!
//! Every wait in here is bounded; a bound that fires is reported to the caller as `Timeout`
//! (the property checks map it to *inconclusive*, never to a violation).

use crate::report::Cfg;
use std::collections::BTreeMap;
use std::io::Read;
use std::net::{SocketAddr, TcpListener, TcpStream};
use std::path::{Path, PathBuf};
use std::process::{Child, Command, ExitStatus, Stdio};
use std::time::{Duration, Instant};

/// Directory holding the tool binaries: `--bindir DIR`, else `$VERIF_BINDIR`, else the directory
/// of the running harness executable (the driver builds the tools into the same target dir).
pub fn bindir(cfg: &Cfg) -> PathBuf {
    if let Some(d) = cfg.opt("--bindir") {
        return PathBuf::from(d);
    }
    if let Ok(d) = std::env::var("VERIF_BINDIR") {
        return PathBuf::from(d);
    }
    std::env::current_exe()
        .ok()
        .and_then(|p| p.parent().map(|p| p.to_path_buf()))
        .unwrap_or_else(|| PathBuf::from("."))
}

/// Path of a tool binary, or an error text when it has not been built.
pub fn tool(cfg: &Cfg, name: &str) -> Result<PathBuf, String> {
    let p = bindir(cfg).join(name);
    if p.is_file() {
        // absolute: the tools are started with their own working directories
        p.canonicalize().map_err(|e| format!("{}: {}", p.display(), e))
    } else {
        Err(format!("tool binary {} not found (run ./check --setup)", p.display()))
    }
}

/// Children must not outlive the harness (e.g. when the driver's watchdog kills it): ask the
/// kernel to SIGKILL them when the spawning thread goes away. (Case threads live until all their
/// cases are done and every child is reaped inside its case.)
fn die_with_parent(cmd: &mut Command) {
    use std::os::unix::process::CommandExt;
    unsafe {
        cmd.pre_exec(|| {
            libc::prctl(libc::PR_SET_PDEATHSIG, libc::SIGKILL);
            Ok(())
        });
    }
}

/// A child process that is killed and reaped when the guard goes out of scope.
pub struct Guard(pub Child);

impl Guard {
    pub fn exited(&mut self) -> Option<ExitStatus> {
        self.0.try_wait().ok().flatten()
    }
    pub fn kill(&mut self) {
        let _ = self.0.kill();
        let _ = self.0.wait();
    }
}

impl Drop for Guard {
    fn drop(&mut self) {
        self.kill();
    }
}

#[derive(Debug)]
pub struct Finished {
    pub status: ExitStatus,
    pub stdout: String,
    pub stderr: String,
}

#[derive(Debug)]
pub enum RunError {
    Spawn(String),
    Timeout,
}

fn tail(path: &Path, max: usize) -> String {
    let mut s = Vec::new();
    if let Ok(mut f) = std::fs::File::open(path) {
        let _ = f.read_to_end(&mut s);
    }
    let from = s.len().saturating_sub(max);
    String::from_utf8_lossy(&s[from..]).to_string()
}

/// Run a command to completion with stdout/stderr captured through files `<log>.out/.err`;
/// kill it when `timeout` elapses.
pub fn run_bounded(cmd: &mut Command, log: &Path, timeout: Duration) -> Result<Finished, RunError> {
    let outp = log.with_extension("out");
    let errp = log.with_extension("err");
    let so = std::fs::File::create(&outp).map_err(|e| RunError::Spawn(e.to_string()))?;
    let se = std::fs::File::create(&errp).map_err(|e| RunError::Spawn(e.to_string()))?;
    cmd.stdin(Stdio::null()).stdout(so).stderr(se);
    die_with_parent(cmd);
    let child = cmd.spawn().map_err(|e| RunError::Spawn(e.to_string()))?;
    let mut g = Guard(child);
    let start = Instant::now();
    let mut nap = 1u64;
    loop {
        if let Some(status) = g.exited() {
            return Ok(Finished {
                status,
                stdout: tail(&outp, 4000),
                stderr: tail(&errp, 4000),
            });
        }
        if start.elapsed() > timeout {
            g.kill();
            return Err(RunError::Timeout);
        }
        std::thread::sleep(Duration::from_millis(nap));
        nap = (nap * 2).min(20);
    }
}

/// Spawn a long-running child (a server) with output redirected to `<log>.out/.err`.
pub fn spawn_logged(cmd: &mut Command, log: &Path) -> Result<Guard, String> {
    let so = std::fs::File::create(log.with_extension("out")).map_err(|e| e.to_string())?;
    let se = std::fs::File::create(log.with_extension("err")).map_err(|e| e.to_string())?;
    cmd.stdin(Stdio::null()).stdout(so).stderr(se);
    die_with_parent(cmd);
    cmd.spawn().map(Guard).map_err(|e| e.to_string())
}

pub fn log_tail(log: &Path, max: usize) -> String {
    format!(
        "{}{}",
        tail(&log.with_extension("out"), max),
        tail(&log.with_extension("err"), max)
    )
}

/// A TCP port that is free right now. Ports are handed out from a per-process rotating cursor so
/// that two scenarios of this process never get the same one; whether the port really ends up in
/// the hands of the intended child is verified by `wait_port` (the tools cannot report an
/// ephemeral port themselves, so there is an unavoidable window between this probe and their bind).
pub fn free_port() -> Option<u16> {
    use std::sync::atomic::{AtomicU32, Ordering};
    static CURSOR: AtomicU32 = AtomicU32::new(0);
    const LO: u32 = 20000;
    const SPAN: u32 = 40000;
    if CURSOR.load(Ordering::Relaxed) == 0 {
        let seed = std::process::id().wrapping_mul(2654435761) ^ (std::time::SystemTime::now()
            .duration_since(std::time::UNIX_EPOCH)
            .map(|d| d.subsec_nanos())
            .unwrap_or(0));
        let _ = CURSOR.compare_exchange(0, 1 + seed % SPAN, Ordering::Relaxed, Ordering::Relaxed);
    }
    for _ in 0..2000 {
        let c = CURSOR.fetch_add(1, Ordering::Relaxed);
        let port = (LO + c % SPAN) as u16;
        // the tools listen on 0.0.0.0
        if let Ok(l) = TcpListener::bind(("0.0.0.0", port)) {
            drop(l);
            return Some(port);
        }
    }
    None
}

/// Does process `pid` hold the listening TCP socket on `port`? (Linux /proc; None = cannot tell)
pub fn port_owned_by(pid: u32, port: u16) -> Option<bool> {
    let mut inodes: Vec<String> = Vec::new();
    let mut readable = false;
    for table in ["/proc/net/tcp", "/proc/net/tcp6"] {
        let Ok(text) = std::fs::read_to_string(table) else { continue };
        readable = true;
        for line in text.lines().skip(1) {
            let f: Vec<&str> = line.split_whitespace().collect();
            if f.len() < 10 || f[3] != "0A" {
                continue;
            }
            let Some(p) = f[1].rsplit(':').next() else { continue };
            if u16::from_str_radix(p, 16).ok() == Some(port) {
                inodes.push(f[9].to_string());
            }
        }
    }
    if !readable {
        return None;
    }
    if inodes.is_empty() {
        return Some(false);
    }
    let rd = std::fs::read_dir(format!("/proc/{}/fd", pid)).ok()?;
    for e in rd.flatten() {
        if let Ok(t) = std::fs::read_link(e.path()) {
            let t = t.to_string_lossy().to_string();
            if inodes.iter().any(|i| t == format!("socket:[{}]", i)) {
                return Some(true);
            }
        }
    }
    Some(false)
}

#[derive(Debug, PartialEq)]
pub enum PortWait {
    Ready,
    ChildExited,
    Timeout,
}

/// Wait until *the child* listens on `port` (loopback connect succeeds and, where /proc can tell,
/// the listening socket belongs to the child), the child dies, or the bound elapses.
pub fn wait_port(port: u16, child: &mut Guard, timeout: Duration) -> PortWait {
    let addr: SocketAddr = ([127, 0, 0, 1], port).into();
    let start = Instant::now();
    let pid = child.0.id();
    loop {
        if child.exited().is_some() {
            return PortWait::ChildExited;
        }
        match port_owned_by(pid, port) {
            Some(true) => {
                if let Ok(s) = TcpStream::connect_timeout(&addr, Duration::from_millis(250)) {
                    drop(s);
                    if child.exited().is_some() {
                        return PortWait::ChildExited;
                    }
                    return PortWait::Ready;
                }
            }
            Some(false) => {} // not (yet) ours: keep waiting; a lost race ends with the child exiting
            None => {
                if let Ok(s) = TcpStream::connect_timeout(&addr, Duration::from_millis(250)) {
                    drop(s);
                    std::thread::sleep(Duration::from_millis(20));
                    if child.exited().is_some() {
                        return PortWait::ChildExited;
                    }
                    return PortWait::Ready;
                }
            }
        }
        if start.elapsed() > timeout {
            return PortWait::Timeout;
        }
        std::thread::sleep(Duration::from_millis(3));
    }
}

#[derive(Clone, Debug, PartialEq)]
pub struct Entry {
    pub is_dir: bool,
    pub is_symlink: bool,
    pub len: u64,
    /// FNV-1a of the content (files only)
    pub hash: u64,
}

fn fnv(data: &[u8]) -> u64 {
    let mut h = 0xcbf2_9ce4_8422_2325u64;
    for b in data {
        h ^= *b as u64;
        h = h.wrapping_mul(0x0000_0100_0000_01B3);
    }
    h
}

/// Recursive listing of `root` (paths relative to it; symlinks are not followed).
pub fn snapshot(root: &Path) -> BTreeMap<PathBuf, Entry> {
    fn rec(root: &Path, dir: &Path, out: &mut BTreeMap<PathBuf, Entry>) {
        let Ok(rd) = std::fs::read_dir(dir) else { return };
        for e in rd.flatten() {
            let p = e.path();
            let Ok(md) = std::fs::symlink_metadata(&p) else { continue };
            let rel = p.strip_prefix(root).unwrap_or(&p).to_path_buf();
            if md.file_type().is_symlink() {
                out.insert(rel, Entry { is_dir: false, is_symlink: true, len: 0, hash: 0 });
            } else if md.is_dir() {
                out.insert(rel, Entry { is_dir: true, is_symlink: false, len: 0, hash: 0 });
                rec(root, &p, out);
            } else {
                let data = std::fs::read(&p).unwrap_or_default();
                out.insert(
                    rel,
                    Entry { is_dir: false, is_symlink: false, len: md.len(), hash: fnv(&data) },
                );
            }
        }
    }
    let mut out = BTreeMap::new();
    rec(root, root, &mut out);
    out
}

/// Fresh scratch directory `<cfg.out>/<prefix>-<seed>-<case>-<pid>`; removed by `Scratch::drop`.
pub struct Scratch(pub PathBuf);

impl Scratch {
    pub fn new(cfg: &Cfg, prefix: &str, case: u64) -> Result<Scratch, String> {
        let p = Path::new(&cfg.out).join(format!(
            "{}-{}-{}-{}",
            prefix,
            cfg.seed,
            case,
            std::process::id()
        ));
        let _ = std::fs::remove_dir_all(&p);
        std::fs::create_dir_all(&p).map_err(|e| format!("cannot create {}: {}", p.display(), e))?;
        let p = p.canonicalize().map_err(|e| e.to_string())?;
        Ok(Scratch(p))
    }
    pub fn path(&self) -> &Path {
        &self.0
    }
}

impl Drop for Scratch {
    fn drop(&mut self) {
        let _ = std::fs::remove_dir_all(&self.0);
    }
}
