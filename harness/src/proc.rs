//! Helpers for the checks that drive the real tool binaries (C32, C33, C35):
//! locating the binaries, bounded process execution, child guards, loopback ports, tree snapshots.
//!
//! Every wait in here is bounded; a bound that fires is reported to the caller as `Timeout`
//! (the property checks map it to *inconclusive*, never to a violation).

use crate::report::Cfg;
use std::collections::BTreeMap;
use std::io::Read;
use std::net::{SocketAddr, TcpListener, TcpStream};
use std::path::{Path, PathBuf};
use std::process::{Child, Command, ExitStatus, Stdio};
use std::time::{Duration, Instant};

/// Directory holding the tool binaries: `--bindir DIR`, else `$VERIF_BINDIR`, else the directory
/// of the running harness executable (the driver builds the tools into the same target dir).
pub fn bindir(cfg: &Cfg) -> PathBuf {
    if let Some(d) = cfg.opt("--bindir") {
        return PathBuf::from(d);
    }
    if let Ok(d) = std::env::var("VERIF_BINDIR") {
        return PathBuf::from(d);
    }
    std::env::current_exe()
        .ok()
        .and_then(|p| p.parent().map(|p| p.to_path_buf()))
        .unwrap_or_else(|| PathBuf::from("."))
}

/// Path of a tool binary, or an error text when it has not been built.
pub fn tool(cfg: &Cfg, name: &str) -> Result<PathBuf, String> {
    let p = bindir(cfg).join(name);
    if p.is_file() {
        // absolute: the tools are started with their own working directories
        p.canonicalize().map_err(|e| format!("{}: {}", p.display(), e))
    } else {
        Err(format!("tool binary {} not found (run ./check --setup)", p.display()))
    }
}

/// A child process that is killed and reaped when the guard goes out of scope.
pub struct Guard(pub Child);

impl Guard {
    pub fn exited(&mut self) -> Option<ExitStatus> {
        self.0.try_wait().ok().flatten()
    }
    pub fn kill(&mut self) {
        let _ = self.0.kill();
        let _ = self.0.wait();
    }
}

impl Drop for Guard {
    fn drop(&mut self) {
        self.kill();
    }
}

#[derive(Debug)]
pub struct Finished {
    pub status: ExitStatus,
    pub stdout: String,
    pub stderr: String,
}

#[derive(Debug)]
pub enum RunError {
    Spawn(String),
    Timeout,
}

fn tail(path: &Path, max: usize) -> String {
    let mut s = Vec::new();
    if let Ok(mut f) = std::fs::File::open(path) {
        let _ = f.read_to_end(&mut s);
    }
    let from = s.len().saturating_sub(max);
    String::from_utf8_lossy(&s[from..]).to_string()
}

/// Run a command to completion with stdout/stderr captured through files `<log>.out/.err`;
/// kill it when `timeout` elapses.
pub fn run_bounded(cmd: &mut Command, log: &Path, timeout: Duration) -> Result<Finished, RunError> {
    let outp = log.with_extension("out");
    let errp = log.with_extension("err");
    let so = std::fs::File::create(&outp).map_err(|e| RunError::Spawn(e.to_string()))?;
    let se = std::fs::File::create(&errp).map_err(|e| RunError::Spawn(e.to_string()))?;
    cmd.stdin(Stdio::null()).stdout(so).stderr(se);
    let child = cmd.spawn().map_err(|e| RunError::Spawn(e.to_string()))?;
    let mut g = Guard(child);
    let start = Instant::now();
    let mut nap = 1u64;
    loop {
        if let Some(status) = g.exited() {
            return Ok(Finished {
                status,
                stdout: tail(&outp, 4000),
                stderr: tail(&errp, 4000),
            });
        }
        if start.elapsed() > timeout {
            g.kill();
            return Err(RunError::Timeout);
        }
        std::thread::sleep(Duration::from_millis(nap));
        nap = (nap * 2).min(20);
    }
}

/// Spawn a long-running child (a server) with output redirected to `<log>.out/.err`.
pub fn spawn_logged(cmd: &mut Command, log: &Path) -> Result<Guard, String> {
    let so = std::fs::File::create(log.with_extension("out")).map_err(|e| e.to_string())?;
    let se = std::fs::File::create(log.with_extension("err")).map_err(|e| e.to_string())?;
    cmd.stdin(Stdio::null()).stdout(so).stderr(se);
    cmd.spawn().map(Guard).map_err(|e| e.to_string())
}

pub fn log_tail(log: &Path, max: usize) -> String {
    format!(
        "{}{}",
        tail(&log.with_extension("out"), max),
        tail(&log.with_extension("err"), max)
    )
}

/// A TCP port that was free a moment ago (the tools cannot report an ephemeral port themselves).
pub fn free_port() -> Option<u16> {
    let l = TcpListener::bind("127.0.0.1:0").ok()?;
    l.local_addr().ok().map(|a| a.port())
}

#[derive(Debug, PartialEq)]
pub enum PortWait {
    Ready,
    ChildExited,
    Timeout,
}

/// Wait until `port` accepts connections on loopback, the child dies, or the bound elapses.
pub fn wait_port(port: u16, child: &mut Guard, timeout: Duration) -> PortWait {
    let addr: SocketAddr = ([127, 0, 0, 1], port).into();
    let start = Instant::now();
    loop {
        if child.exited().is_some() {
            return PortWait::ChildExited;
        }
        if let Ok(s) = TcpStream::connect_timeout(&addr, Duration::from_millis(250)) {
            drop(s);
            // the listener could belong to somebody else if our child died meanwhile
            if child.exited().is_some() {
                return PortWait::ChildExited;
            }
            return PortWait::Ready;
        }
        if start.elapsed() > timeout {
            return PortWait::Timeout;
        }
        std::thread::sleep(Duration::from_millis(5));
    }
}

#[derive(Clone, Debug, PartialEq)]
pub struct Entry {
    pub is_dir: bool,
    pub is_symlink: bool,
    pub len: u64,
    /// FNV-1a of the content (files only)
    pub hash: u64,
}

fn fnv(data: &[u8]) -> u64 {
    let mut h = 0xcbf2_9ce4_8422_2325u64;
    for b in data {
        h ^= *b as u64;
        h = h.wrapping_mul(0x0000_0100_0000_01B3);
    }
    h
}

/// Recursive listing of `root` (paths relative to it; symlinks are not followed).
pub fn snapshot(root: &Path) -> BTreeMap<PathBuf, Entry> {
    fn rec(root: &Path, dir: &Path, out: &mut BTreeMap<PathBuf, Entry>) {
        let Ok(rd) = std::fs::read_dir(dir) else { return };
        for e in rd.flatten() {
            let p = e.path();
            let Ok(md) = std::fs::symlink_metadata(&p) else { continue };
            let rel = p.strip_prefix(root).unwrap_or(&p).to_path_buf();
            if md.file_type().is_symlink() {
                out.insert(rel, Entry { is_dir: false, is_symlink: true, len: 0, hash: 0 });
            } else if md.is_dir() {
                out.insert(rel, Entry { is_dir: true, is_symlink: false, len: 0, hash: 0 });
                rec(root, &p, out);
            } else {
                let data = std::fs::read(&p).unwrap_or_default();
                out.insert(
                    rel,
                    Entry { is_dir: false, is_symlink: false, len: md.len(), hash: fnv(&data) },
                );
            }
        }
    }
    let mut out = BTreeMap::new();
    rec(root, root, &mut out);
    out
}

/// Fresh scratch directory `<cfg.out>/<prefix>-<seed>-<case>-<pid>`; removed by `Scratch::drop`.
pub struct Scratch(pub PathBuf);

impl Scratch {
    pub fn new(cfg: &Cfg, prefix: &str, case: u64) -> Result<Scratch, String> {
        let p = Path::new(&cfg.out).join(format!(
            "{}-{}-{}-{}",
            prefix,
            cfg.seed,
            case,
            std::process::id()
        ));
        let _ = std::fs::remove_dir_all(&p);
        std::fs::create_dir_all(&p).map_err(|e| format!("cannot create {}: {}", p.display(), e))?;
        let p = p.canonicalize().map_err(|e| e.to_string())?;
        Ok(Scratch(p))
    }
    pub fn path(&self) -> &Path {
        &self.0
    }
}

impl Drop for Scratch {
    fn drop(&mut self) {
        let _ = std::fs::remove_dir_all(&self.0);
    }
}
