//! Structural equality of two in-memory objects produced by *different readers of the same
//! bytes* (exact: same tags, VRs, value variants and contents; header length fields ignored;
//! floats compared through their debug text so that NaN equals NaN).

use dicom_core::header::Header;
use dicom_core::value::Value;
use dicom_object::mem::InMemElement;
use dicom_object::InMemDicomObject;

pub fn same_element(a: &InMemElement, b: &InMemElement, path: &str) -> Result<(), String> {
    let p = format!("{}({:04X},{:04X})", path, a.tag().0, a.tag().1);
    if a.tag() != b.tag() {
        return Err(format!("{}: tag {} vs {}", p, a.tag(), b.tag()));
    }
    if a.vr() != b.vr() {
        return Err(format!("{}: VR {} vs {}", p, a.vr(), b.vr()));
    }
    match (a.value(), b.value()) {
        (Value::Primitive(x), Value::Primitive(y)) => {
            let (sx, sy) = (format!("{:?}", x), format!("{:?}", y));
            if sx != sy {
                let cut = |s: String| s.chars().take(160).collect::<String>();
                return Err(format!("{}: value {} vs {}", p, cut(sx), cut(sy)));
            }
        }
        (Value::Sequence(x), Value::Sequence(y)) => {
            if x.items().len() != y.items().len() {
                return Err(format!("{}: {} items vs {}", p, x.items().len(), y.items().len()));
            }
            for (i, (ia, ib)) in x.items().iter().zip(y.items().iter()).enumerate() {
                same_object(ia, ib, &format!("{}[{}].", p, i))?;
            }
        }
        (Value::PixelSequence(x), Value::PixelSequence(y)) => {
            if x.offset_table() != y.offset_table() {
                return Err(format!("{}: offset table {:?} vs {:?}", p, x.offset_table(), y.offset_table()));
            }
            let la: Vec<usize> = x.fragments().iter().map(|f| f.len()).collect();
            let lb: Vec<usize> = y.fragments().iter().map(|f| f.len()).collect();
            if la != lb {
                return Err(format!("{}: fragment lengths {:?} vs {:?}", p, la, lb));
            }
            if x.fragments() != y.fragments() {
                return Err(format!("{}: fragment contents differ", p));
            }
        }
        _ => return Err(format!("{}: different kinds of value", p)),
    }
    Ok(())
}

pub fn same_object(a: &InMemDicomObject, b: &InMemDicomObject, path: &str) -> Result<(), String> {
    let ta: Vec<_> = a.tags().collect();
    let tb: Vec<_> = b.tags().collect();
    if ta != tb {
        return Err(format!("{}: tag lists differ: {:?} vs {:?}", path, ta, tb).chars().take(400).collect());
    }
    for (ea, eb) in a.iter().zip(b.iter()) {
        same_element(ea, eb, path)?;
    }
    Ok(())
}
