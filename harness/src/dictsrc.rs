//! Reference table parsed from the generated dictionary *source* (`dictionary-std/src/tags.rs`).
//! Used as a tag pool by the generators and as the reference for C15.

use std::collections::HashMap;

#[derive(Clone, Copy, Debug, PartialEq, Eq, Hash)]
pub enum Kind {
    Single,
    Group100,
    Element100,
}

#[derive(Clone, Debug)]
pub struct SrcEntry {
    pub konst: String,
    pub kind: Kind,
    pub tag: (u16, u16),
    pub alias: String,
    /// VR text as written in the table: `Exact(UL)` -> "UL", virtual ones "Xs","Ox","Px","Lt"
    pub vr: String,
    /// from the doc comment above the constant: "(gggg,eeee)" text and VR text
    pub doc_tag: Option<String>,
    pub doc_vr: Option<String>,
}

pub fn repo_root() -> String {
    std::env::var("VERIF_REPO").unwrap_or_else(|_| "/repo".to_string())
}

fn parse_hex(s: &str) -> Option<u16> {
    u16::from_str_radix(s.trim().trim_start_matches("0x"), 16).ok()
}

/// Parse tags.rs. Returns the entries in table order.
pub fn parse_tags_rs() -> Result<Vec<SrcEntry>, String> {
    let path = format!("{}/dictionary-std/src/tags.rs", repo_root());
    let text = std::fs::read_to_string(&path).map_err(|e| format!("{}: {}", path, e))?;
    // constants
    struct K {
        kind: Kind,
        tag: (u16, u16),
        doc_tag: Option<String>,
        doc_vr: Option<String>,
    }
    let mut consts: HashMap<String, K> = HashMap::new();
    let mut last_doc: Option<String> = None;
    for line in text.lines() {
        let l = line.trim();
        if let Some(d) = l.strip_prefix("/// ") {
            last_doc = Some(d.to_string());
            continue;
        }
        if let Some(rest) = l.strip_prefix("pub const ") {
            // NAME: Tag = Tag(0x0000, 0x0000);   or  NAME: TagRange = Group100(Tag(0x6000, 0x0010));
            if let Some((name, rhs)) = rest.split_once(':') {
                let rhs = rhs.trim();
                let (kind, inner) = if let Some(x) = rhs.strip_prefix("Tag = Tag(") {
                    (Kind::Single, x)
                } else if let Some(x) = rhs.strip_prefix("TagRange = Group100(Tag(") {
                    (Kind::Group100, x)
                } else if let Some(x) = rhs.strip_prefix("TagRange = Element100(Tag(") {
                    (Kind::Element100, x)
                } else {
                    continue;
                };
                let inner = inner.trim_end_matches(';').trim_end_matches(')');
                if let Some((g, e)) = inner.split_once(',') {
                    if let (Some(g), Some(e)) = (parse_hex(g), parse_hex(e)) {
                        let (doc_tag, doc_vr) = match &last_doc {
                            Some(d) => {
                                let parts: Vec<&str> = d.split_whitespace().collect();
                                (
                                    parts.get(1).map(|s| s.to_string()),
                                    parts.get(2).map(|s| s.to_string()),
                                )
                            }
                            None => (None, None),
                        };
                        consts.insert(
                            name.trim().to_string(),
                            K {
                                kind,
                                tag: (g, e),
                                doc_tag,
                                doc_vr,
                            },
                        );
                    }
                }
            }
            last_doc = None;
            continue;
        }
        if !l.starts_with("#[") {
            last_doc = None;
        }
    }
    // entries
    let mut out = Vec::new();
    for line in text.lines() {
        let l = line.trim();
        let Some(rest) = l.strip_prefix("E { tag: ") else {
            continue;
        };
        // Single(NAME), alias: "Alias", vr: Exact(UL) }, // ...
        let (tagpart, rest) = rest.split_once(", alias: \"").ok_or("bad entry line")?;
        let (alias, rest) = rest.split_once("\", vr: ").ok_or("bad entry line")?;
        let vrpart = rest.split(" }").next().ok_or("bad entry line")?;
        let name = tagpart
            .trim_start_matches("Single(")
            .trim_end_matches(')')
            .to_string();
        let k = consts
            .get(&name)
            .ok_or_else(|| format!("entry refers to unknown constant {}", name))?;
        let vr = vrpart
            .trim()
            .trim_start_matches("Exact(")
            .trim_end_matches(')')
            .to_string();
        let is_single_syntax = tagpart.starts_with("Single(");
        if is_single_syntax != (k.kind == Kind::Single) {
            return Err(format!("entry/constant kind mismatch for {}", name));
        }
        out.push(SrcEntry {
            konst: name,
            kind: k.kind,
            tag: k.tag,
            alias: alias.to_string(),
            vr,
            doc_tag: k.doc_tag.clone(),
            doc_vr: k.doc_vr.clone(),
        });
    }
    if out.len() < 4000 {
        return Err(format!("only {} dictionary entries parsed", out.len()));
    }
    Ok(out)
}
