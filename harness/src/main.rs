//! `dicomverif` — workload + monitor binary for the dicom-rs runtime-monitoring checks.
//! Usage: dicomverif <PROP> [--tier quick|thorough] [--seed N] [--threads N] [--out DIR]
//!                   [--in FILE] [--case IDX] [extra flags...]

mod cmp;
mod dictsrc;
mod gen;
mod mon;
mod objeq;
mod proc;
mod props;
mod refenc;
mod report;
mod rng;

use report::Cfg;
use std::time::Instant;

fn main() {
    let args: Vec<String> = std::env::args().collect();
    if args.len() < 2 {
        eprintln!("usage: dicomverif <PROP> [options]");
        std::process::exit(2);
    }
    let mut cfg = Cfg {
        prop: args[1].clone(),
        tier: std::env::var("VERIF_TIER").unwrap_or_else(|_| "quick".into()),
        seed: std::env::var("VERIF_SEED")
            .ok()
            .and_then(|s| s.parse().ok())
            .unwrap_or(1),
        threads: std::thread::available_parallelism().map(|n| n.get()).unwrap_or(4),
        out: String::new(),
        input: None,
        only_case: None,
        extra: Vec::new(),
        scale: std::env::var("VERIF_SCALE")
            .ok()
            .and_then(|s| s.parse().ok())
            .unwrap_or(1.0),
    };
    let mut i = 2;
    while i < args.len() {
        let a = args[i].as_str();
        let mut val = || {
            i += 1;
            args.get(i).cloned().unwrap_or_else(|| {
                eprintln!("missing value for {}", a);
                std::process::exit(2)
            })
        };
        match a {
            "--tier" => cfg.tier = val(),
            "--seed" => cfg.seed = val().parse().expect("seed"),
            "--threads" => cfg.threads = val().parse().expect("threads"),
            "--out" => cfg.out = val(),
            "--in" => cfg.input = Some(val()),
            "--case" => cfg.only_case = Some(val().parse().expect("case")),
            _ => cfg.extra.push(args[i].clone()),
        }
        i += 1;
    }
    if cfg.out.is_empty() {
        cfg.out = format!("/verif/work/{}", cfg.prop);
    }
    std::fs::create_dir_all(&cfg.out).ok();
    report::install_panic_hook();
    let start = Instant::now();
    let outcome = props::dispatch(&cfg);
    let wall = start.elapsed().as_secs_f64();
    match outcome {
        Some(o) => {
            let j = o.to_json(&cfg, wall);
            let name = cfg.opt("--result").unwrap_or_else(|| "result.json".into());
            let path = format!("{}/{}", cfg.out, name);
            std::fs::write(&path, serde_json::to_string_pretty(&j).unwrap()).expect("write result");
            let nv = o.local.violations.len();
            eprintln!(
                "[{}] evaluations={} classes={} violation-keys={} wall={:.1}s -> {}",
                cfg.prop,
                o.local.evaluations,
                o.local.classes.len(),
                nv,
                wall,
                path
            );
        }
        None => {
            eprintln!("unknown property/subcommand {}", cfg.prop);
            std::process::exit(2);
        }
    }
}
