//! Small deterministic PRNG (xoshiro256**), seeded through splitmix64.
//! No external crates: every case is reproducible from (seed, stream, index).

#[derive(Clone, Debug)]
pub struct Rng {
    s: [u64; 4],
}

fn splitmix(x: &mut u64) -> u64 {
    *x = x.wrapping_add(0x9E37_79B9_7F4A_7C15);
    let mut z = *x;
    z = (z ^ (z >> 30)).wrapping_mul(0xBF58_476D_1CE4_E5B9);
    z = (z ^ (z >> 27)).wrapping_mul(0x94D0_49BB_1331_11EB);
    z ^ (z >> 31)
}

impl Rng {
    pub fn new(seed: u64) -> Self {
        let mut x = seed;
        let s = [
            splitmix(&mut x),
            splitmix(&mut x),
            splitmix(&mut x),
            splitmix(&mut x),
        ];
        Rng { s }
    }

    /// Derive an independent stream for (property, case index).
    pub fn derive(seed: u64, stream: u64, index: u64) -> Self {
        let mut x = seed ^ stream.wrapping_mul(0xD6E8_FEB8_6659_FD93);
        let a = splitmix(&mut x);
        let mut y = a ^ index.wrapping_mul(0xA076_1D64_78BD_642F);
        let b = splitmix(&mut y);
        Rng::new(a ^ b.rotate_left(17))
    }

    pub fn next_u64(&mut self) -> u64 {
        let r = self.s[1].wrapping_mul(5).rotate_left(7).wrapping_mul(9);
        let t = self.s[1] << 17;
        self.s[2] ^= self.s[0];
        self.s[3] ^= self.s[1];
        self.s[1] ^= self.s[2];
        self.s[0] ^= self.s[3];
        self.s[2] ^= t;
        self.s[3] = self.s[3].rotate_left(45);
        r
    }

    pub fn next_u32(&mut self) -> u32 {
        (self.next_u64() >> 32) as u32
    }

    /// Uniform in 0..n (n > 0).
    pub fn below(&mut self, n: u64) -> u64 {
        debug_assert!(n > 0);
        // multiply-shift; bias is irrelevant for test generation
        ((self.next_u64() as u128 * n as u128) >> 64) as u64
    }

    pub fn usize(&mut self, n: usize) -> usize {
        self.below(n as u64) as usize
    }

    /// Uniform in lo..=hi
    pub fn range(&mut self, lo: i64, hi: i64) -> i64 {
        lo + self.below((hi - lo + 1) as u64) as i64
    }

    pub fn urange(&mut self, lo: usize, hi: usize) -> usize {
        lo + self.usize(hi - lo + 1)
    }

    pub fn chance(&mut self, num: u64, den: u64) -> bool {
        self.below(den) < num
    }

    pub fn bool(&mut self) -> bool {
        self.next_u64() & 1 == 1
    }

    pub fn f64(&mut self) -> f64 {
        (self.next_u64() >> 11) as f64 / (1u64 << 53) as f64
    }

    pub fn pick<'a, T>(&mut self, xs: &'a [T]) -> &'a T {
        &xs[self.usize(xs.len())]
    }

    pub fn bytes(&mut self, n: usize) -> Vec<u8> {
        let mut v = Vec::with_capacity(n);
        while v.len() < n {
            let x = self.next_u64().to_le_bytes();
            let k = (n - v.len()).min(8);
            v.extend_from_slice(&x[..k]);
        }
        v
    }

    pub fn shuffle<T>(&mut self, xs: &mut [T]) {
        for i in (1..xs.len()).rev() {
            let j = self.usize(i + 1);
            xs.swap(i, j);
        }
    }
}
