//! Monitors and instrumented I/O shared by the upper-layer checks.
pub mod probe;
pub mod failio;
pub mod transport;
pub mod net;
