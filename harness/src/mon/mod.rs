//! Monitors and instrumented I/O shared by the upper-layer checks.
pub mod transport;
pub mod net;
