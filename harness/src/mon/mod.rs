pub mod probe;
