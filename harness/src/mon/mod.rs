pub mod probe;
pub mod failio;
