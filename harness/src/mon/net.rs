//! Loopback helpers for the association checks: ephemeral listeners, sockets that always carry
//! timeouts, raw PDU framing, and a recording proxy that parses PDU headers in both directions.
//!
//! Nothing here can block for ever: every socket gets read/write timeouts, `accept` polls with a
//! deadline, and the proxy threads stop at a deadline. A deadline that fires is reported to the
//! caller, who turns it into an *inconclusive* count, never into a violation.

use std::io::{self, Read, Write};
use std::net::{SocketAddr, TcpListener, TcpStream};
use std::os::fd::AsRawFd;
use std::sync::atomic::{AtomicBool, Ordering};
use std::sync::{Arc, Mutex};
use std::thread::JoinHandle;
use std::time::{Duration, Instant};

pub const IO_TIMEOUT: Duration = Duration::from_secs(8);

/// Make `close` send RST instead of going through TIME_WAIT (thousands of short associations
/// would otherwise exhaust the ephemeral port range). Only call when all data has been consumed.
pub fn rst_on_close(s: &TcpStream) {
    let l = libc::linger { l_onoff: 1, l_linger: 0 };
    unsafe {
        libc::setsockopt(
            s.as_raw_fd(),
            libc::SOL_SOCKET,
            libc::SO_LINGER,
            &l as *const _ as *const libc::c_void,
            std::mem::size_of::<libc::linger>() as libc::socklen_t,
        );
    }
}

pub fn with_timeouts(s: &TcpStream) -> io::Result<()> {
    s.set_read_timeout(Some(IO_TIMEOUT))?;
    s.set_write_timeout(Some(IO_TIMEOUT))?;
    s.set_nodelay(true)?;
    Ok(())
}

/// Listener on 127.0.0.1:0 whose `accept` polls with a deadline.
pub struct Listener {
    pub l: TcpListener,
    pub addr: SocketAddr,
}

impl Listener {
    pub fn new() -> io::Result<Self> {
        let l = TcpListener::bind("127.0.0.1:0")?;
        l.set_nonblocking(true)?;
        let addr = l.local_addr()?;
        Ok(Listener { l, addr })
    }
    pub fn accept(&self, deadline: Duration) -> io::Result<TcpStream> {
        self.accept_until(deadline, None)
    }
    /// `accept` that also gives up when `stop` is raised.
    pub fn accept_until(&self, deadline: Duration, stop: Option<&AtomicBool>) -> io::Result<TcpStream> {
        let t0 = Instant::now();
        loop {
            if let Some(s) = stop {
                if s.load(Ordering::Relaxed) {
                    return Err(io::Error::new(io::ErrorKind::TimedOut, "accept stopped"));
                }
            }
            match self.l.accept() {
                Ok((s, _)) => {
                    s.set_nonblocking(false)?;
                    with_timeouts(&s)?;
                    return Ok(s);
                }
                Err(e) if e.kind() == io::ErrorKind::WouldBlock => {
                    if t0.elapsed() > deadline {
                        return Err(io::Error::new(io::ErrorKind::TimedOut, "accept deadline"));
                    }
                    std::thread::sleep(Duration::from_micros(200));
                }
                Err(e) => return Err(e),
            }
        }
    }
}

pub fn connect(addr: SocketAddr) -> io::Result<TcpStream> {
    let s = TcpStream::connect_timeout(&addr, IO_TIMEOUT)?;
    with_timeouts(&s)?;
    Ok(s)
}

/// Read exactly one PDU (header + body) as raw bytes.
pub fn read_raw_pdu(s: &mut TcpStream) -> io::Result<Vec<u8>> {
    let mut h = [0u8; 6];
    s.read_exact(&mut h)?;
    let len = u32::from_be_bytes([h[2], h[3], h[4], h[5]]) as usize;
    if len > 64 << 20 {
        return Err(io::Error::new(io::ErrorKind::InvalidData, "implausible PDU length"));
    }
    let mut v = h.to_vec();
    v.resize(6 + len, 0);
    s.read_exact(&mut v[6..])?;
    Ok(v)
}

/// One PDU seen by the proxy.
#[derive(Debug, Clone)]
pub struct SeenPdu {
    /// true = requestor → acceptor
    pub from_requestor: bool,
    pub ptype: u8,
    /// value of the PDU-length field
    pub len: u32,
    /// global order of header completion
    pub order: u64,
    /// first bytes of the body (enough for A-ASSOCIATE-* inspection when small) / whole body for
    /// association PDUs
    pub body: Vec<u8>,
}

#[derive(Debug, Default)]
pub struct ProxyLog {
    pub pdus: Vec<SeenPdu>,
    pub bytes_fwd: [u64; 2],
    pub partial_tail: [usize; 2],
    pub errors: Vec<String>,
    pub counter: u64,
}

/// Recording proxy: accepts one connection on its own listener, connects to `upstream`, forwards
/// both directions byte-exactly and parses PDU framing on the fly.
pub struct Proxy {
    pub addr: SocketAddr,
    pub log: Arc<Mutex<ProxyLog>>,
    stop: Arc<AtomicBool>,
    handle: Option<JoinHandle<()>>,
}

struct Framer {
    from_requestor: bool,
    hdr: Vec<u8>,
    left: usize,
    keep: bool,
    cur: Option<SeenPdu>,
}

impl Framer {
    fn feed(&mut self, mut b: &[u8], log: &Mutex<ProxyLog>) {
        while !b.is_empty() {
            if self.left == 0 && self.cur.is_none() {
                let need = 6 - self.hdr.len();
                let k = need.min(b.len());
                self.hdr.extend_from_slice(&b[..k]);
                b = &b[k..];
                if self.hdr.len() == 6 {
                    let len = u32::from_be_bytes([self.hdr[2], self.hdr[3], self.hdr[4], self.hdr[5]]);
                    let ptype = self.hdr[0];
                    self.keep = ptype != 0x04;
                    let order = {
                        let mut g = log.lock().unwrap();
                        g.counter += 1;
                        g.counter
                    };
                    self.cur = Some(SeenPdu { from_requestor: self.from_requestor, ptype, len, order, body: Vec::new() });
                    self.left = len as usize;
                    self.hdr.clear();
                    if self.left == 0 {
                        log.lock().unwrap().pdus.push(self.cur.take().unwrap());
                    }
                }
            } else {
                let k = self.left.min(b.len());
                if let Some(c) = &mut self.cur {
                    if self.keep || c.body.len() < 16 {
                        let room = if self.keep { k } else { (16 - c.body.len()).min(k) };
                        c.body.extend_from_slice(&b[..room]);
                    }
                }
                b = &b[k..];
                self.left -= k;
                if self.left == 0 {
                    log.lock().unwrap().pdus.push(self.cur.take().unwrap());
                }
            }
        }
    }
    fn pending_bytes(&self) -> usize {
        self.hdr.len() + if self.cur.is_some() { 1 } else { 0 }
    }
}

fn pump(
    mut from: TcpStream,
    mut to: TcpStream,
    dir: usize,
    log: Arc<Mutex<ProxyLog>>,
    stop: Arc<AtomicBool>,
    deadline: Instant,
    ended: Arc<[AtomicBool; 2]>,
) {
    let mut fr = Framer { from_requestor: dir == 0, hdr: Vec::new(), left: 0, keep: false, cur: None };
    let mut buf = vec![0u8; 65536];
    let _ = from.set_read_timeout(Some(Duration::from_millis(50)));
    loop {
        if stop.load(Ordering::Relaxed) || Instant::now() > deadline {
            break;
        }
        match from.read(&mut buf) {
            Ok(0) => break,
            Ok(n) => {
                fr.feed(&buf[..n], &log);
                if let Err(e) = to.write_all(&buf[..n]) {
                    log.lock().unwrap().errors.push(format!("forward dir{}: {}", dir, e.kind()));
                    break;
                }
                log.lock().unwrap().bytes_fwd[dir] += n as u64;
            }
            Err(e) if e.kind() == io::ErrorKind::WouldBlock || e.kind() == io::ErrorKind::TimedOut => continue,
            Err(e) if e.kind() == io::ErrorKind::Interrupted => continue,
            Err(_) => break,
        }
    }
    log.lock().unwrap().partial_tail[dir] = fr.pending_bytes();
    // Propagate the end of stream only if the other side does not close by itself shortly: when
    // both peers close on their own (the normal end of an association) the proxy sends no FIN at
    // all, and since both proxy sockets close with RST nobody is left in TIME_WAIT.
    ended[dir].store(true, Ordering::SeqCst);
    let other = 1 - dir;
    if !ended[other].load(Ordering::SeqCst) {
        let t0 = Instant::now();
        while t0.elapsed() < Duration::from_millis(25) && !ended[other].load(Ordering::SeqCst) {
            std::thread::sleep(Duration::from_millis(1));
        }
        if !ended[other].load(Ordering::SeqCst) {
            let _ = to.shutdown(std::net::Shutdown::Write);
        }
    }
}

impl Proxy {
    /// Start a proxy in front of `upstream`; it serves exactly one connection and gives up at
    /// `life` after start.
    pub fn start(upstream: SocketAddr, life: Duration) -> io::Result<Proxy> {
        let lst = Listener::new()?;
        let addr = lst.addr;
        let log = Arc::new(Mutex::new(ProxyLog::default()));
        let stop = Arc::new(AtomicBool::new(false));
        let (log2, stop2) = (log.clone(), stop.clone());
        let handle = std::thread::spawn(move || {
            let deadline = Instant::now() + life;
            let down = match lst.accept_until(life, Some(&stop2)) {
                Ok(s) => s,
                Err(e) => {
                    log2.lock().unwrap().errors.push(format!("proxy accept: {}", e.kind()));
                    return;
                }
            };
            let up = match connect(upstream) {
                Ok(s) => s,
                Err(e) => {
                    log2.lock().unwrap().errors.push(format!("proxy connect: {}", e.kind()));
                    return;
                }
            };
            let (d2, u2) = match (down.try_clone(), up.try_clone()) {
                (Ok(a), Ok(b)) => (a, b),
                _ => {
                    log2.lock().unwrap().errors.push("proxy clone".into());
                    return;
                }
            };
            rst_on_close(&down);
            rst_on_close(&up);
            let ended = Arc::new([AtomicBool::new(false), AtomicBool::new(false)]);
            let (l3, s3, e3) = (log2.clone(), stop2.clone(), ended.clone());
            let t = std::thread::spawn(move || pump(u2, d2, 1, l3, s3, deadline, e3));
            pump(down, up, 0, log2, stop2, deadline, ended);
            let _ = t.join();
        });
        Ok(Proxy { addr, log, stop, handle: Some(handle) })
    }

    /// Stop forwarding and return what was seen.
    pub fn finish(mut self) -> ProxyLog {
        // let in-flight bytes drain: the pumps exit on EOF of both sides or at the stop flag
        let t0 = Instant::now();
        if let Some(h) = self.handle.take() {
            while !h.is_finished() && t0.elapsed() < Duration::from_secs(5) {
                std::thread::sleep(Duration::from_millis(1));
            }
            self.stop.store(true, Ordering::Relaxed);
            let _ = h.join();
        }
        let mut g = self.log.lock().unwrap();
        std::mem::take(&mut *g)
    }
}
