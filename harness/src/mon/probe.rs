//! Observation devices for reader-position monitoring (C07): a byte-counting source and a
//! delegating `StatefulDecode` that publishes the decoder's reported position after each call.

use dicom_core::header::{DataElementHeader, SequenceItemHeader};
use dicom_core::value::PrimitiveValue;
use dicom_parser::stateful::decode::{Result, StatefulDecode};
use std::cell::Cell;
use std::io::Read;
use std::rc::Rc;

pub struct CountingReader<'a> {
    pub data: &'a [u8],
    pub at: usize,
    pub consumed: Rc<Cell<u64>>,
}

impl Read for CountingReader<'_> {
    fn read(&mut self, buf: &mut [u8]) -> std::io::Result<usize> {
        let n = buf.len().min(self.data.len() - self.at);
        buf[..n].copy_from_slice(&self.data[self.at..self.at + n]);
        self.at += n;
        self.consumed.set(self.at as u64);
        Ok(n)
    }
}

pub struct Probe<D> {
    pub inner: D,
    pub pos: Rc<Cell<u64>>,
}

impl<D: StatefulDecode> Probe<D> {
    fn rec(&self) {
        self.pos.set(self.inner.position());
    }
}

impl<D: StatefulDecode> StatefulDecode for Probe<D> {
    type Reader = D::Reader;
    fn decode_header(&mut self) -> Result<DataElementHeader> {
        let r = self.inner.decode_header();
        self.rec();
        r
    }
    fn decode_item_header(&mut self) -> Result<SequenceItemHeader> {
        let r = self.inner.decode_item_header();
        self.rec();
        r
    }
    fn read_value(&mut self, header: &DataElementHeader) -> Result<PrimitiveValue> {
        let r = self.inner.read_value(header);
        self.rec();
        r
    }
    fn read_value_preserved(&mut self, header: &DataElementHeader) -> Result<PrimitiveValue> {
        let r = self.inner.read_value_preserved(header);
        self.rec();
        r
    }
    fn read_value_bytes(&mut self, header: &DataElementHeader) -> Result<PrimitiveValue> {
        let r = self.inner.read_value_bytes(header);
        self.rec();
        r
    }
    fn read_to_vec(&mut self, length: u32, vec: &mut Vec<u8>) -> Result<()> {
        let r = self.inner.read_to_vec(length, vec);
        self.rec();
        r
    }
    fn read_u32_to_vec(&mut self, length: u32, vec: &mut Vec<u32>) -> Result<()> {
        let r = self.inner.read_u32_to_vec(length, vec);
        self.rec();
        r
    }
    fn read_to<W>(&mut self, length: u32, out: W) -> Result<()>
    where
        Self: Sized,
        W: std::io::Write,
    {
        let r = self.inner.read_to(length, out);
        self.rec();
        r
    }
    fn skip_bytes(&mut self, length: u32) -> Result<()> {
        let r = self.inner.skip_bytes(length);
        self.rec();
        r
    }
    fn seek(&mut self, position: u64) -> Result<()>
    where
        Self::Reader: std::io::Seek,
    {
        let r = self.inner.seek(position);
        self.rec();
        r
    }
    fn position(&self) -> u64 {
        self.inner.position()
    }
}
