//! Scripted transports: byte sinks/sources that follow a script of partial transfers,
//! not-ready results and failures, and record everything that passes through them.
//!
//! The same script type drives the blocking (`std::io::{Read, Write}`) and the non-blocking
//! (`tokio::io::{AsyncRead, AsyncWrite}`) variants. A transport is a cheap handle on shared state
//! (`Rc<RefCell<..>>`) so that the monitor can look at it while the code under test owns it.
//!
//! Not-ready in the non-blocking variants = `Poll::Pending` *after* waking the task's waker
//! (self-wake), with `pending_in_poll` set so that the driver can tell a legitimate `Pending` of
//! the code under test (the transport said so during this poll) from a lost wake-up.
//! Not-ready in the blocking variants = `ErrorKind::Interrupted`, which `write_all`/`read_to_end`
//! are documented to retry.

use std::cell::RefCell;
use std::io;
use std::pin::Pin;
use std::rc::Rc;
use std::sync::atomic::{AtomicU64, Ordering};
use std::sync::Arc;
use std::task::{Context, Poll, Wake, Waker};
use tokio::io::{AsyncRead, AsyncWrite, ReadBuf};

/// One transport call.
#[derive(Clone, Copy, Debug, PartialEq, Eq, Hash, PartialOrd, Ord)]
pub enum Step {
    /// transfer exactly one byte
    One,
    /// transfer half of what is offered (at least one byte)
    Half,
    /// transfer everything offered
    All,
    /// transfer at most k bytes (at least one)
    Upto(usize),
    /// not ready (Pending + self-wake / Interrupted)
    NotReady,
    /// fail with BrokenPipe; the transport stays broken afterwards
    Fail,
}

impl Step {
    pub fn letter(self) -> String {
        match self {
            Step::One => "1".into(),
            Step::Half => "H".into(),
            Step::All => "A".into(),
            Step::Upto(k) => format!("U{}", k),
            Step::NotReady => "P".into(),
            Step::Fail => "E".into(),
        }
    }
}

/// A finite script followed by a tail step that repeats for ever (or a cyclic script).
#[derive(Clone, Debug, PartialEq, Eq)]
pub struct Script {
    pub steps: Vec<Step>,
    pub tail: Step,
    pub cyclic: bool,
}

impl Script {
    pub fn all() -> Self {
        Script { steps: vec![], tail: Step::All, cyclic: false }
    }
    pub fn new(steps: Vec<Step>) -> Self {
        Script { steps, tail: Step::All, cyclic: false }
    }
    pub fn cyclic(steps: Vec<Step>) -> Self {
        Script { steps, tail: Step::All, cyclic: true }
    }
    pub fn at(&self, i: usize) -> Step {
        if i < self.steps.len() {
            self.steps[i]
        } else if self.cyclic && !self.steps.is_empty() {
            self.steps[i % self.steps.len()]
        } else {
            self.tail
        }
    }
    pub fn text(&self) -> String {
        let mut s: String = self.steps.iter().map(|x| x.letter()).collect::<Vec<_>>().join("");
        if self.cyclic {
            s.push('*');
        } else {
            s.push_str(&format!("+{}", self.tail.letter()));
        }
        s
    }
    pub fn healthy(&self) -> bool {
        !self.steps.contains(&Step::Fail) && self.tail != Step::Fail
    }
}

fn amount(step: Step, offered: usize) -> usize {
    match step {
        Step::One => 1.min(offered),
        Step::Half => (offered / 2).max(1).min(offered),
        Step::All => offered,
        Step::Upto(k) => k.max(1).min(offered),
        Step::NotReady | Step::Fail => 0,
    }
}

/// What a sink saw.
#[derive(Debug, Default)]
pub struct SinkState {
    pub script: Option<Script>,
    /// script position = number of transport calls that consumed a step
    pub pos: usize,
    pub rec: Vec<u8>,
    pub calls: u64,
    pub empty_calls: u64,
    pub not_ready: u64,
    pub failures: u64,
    pub broken: bool,
    /// set when a not-ready result was returned; the driver clears it before every poll
    pub pending_in_poll: bool,
    /// (recorded length, script position) at every not-ready result
    pub not_ready_at: Vec<(usize, usize)>,
    /// recorded length when the first failure was injected
    pub failed_at: Option<usize>,
    pub flushes: u64,
}

/// Scripted byte sink (blocking and non-blocking).
#[derive(Clone)]
pub struct Sink(pub Rc<RefCell<SinkState>>);

enum Act {
    Take(usize),
    NotReady,
    Fail,
}

impl Sink {
    pub fn new(script: Script) -> Self {
        Sink(Rc::new(RefCell::new(SinkState { script: Some(script), ..Default::default() })))
    }
    pub fn clear_poll_flag(&self) {
        self.0.borrow_mut().pending_in_poll = false;
    }
    pub fn pending_in_poll(&self) -> bool {
        self.0.borrow().pending_in_poll
    }
    pub fn recorded(&self) -> Vec<u8> {
        self.0.borrow().rec.clone()
    }
    pub fn steps_used(&self) -> usize {
        self.0.borrow().pos
    }
    fn act(&self, buf: &[u8]) -> Act {
        let mut s = self.0.borrow_mut();
        s.calls += 1;
        if s.broken {
            s.failures += 1;
            return Act::Fail;
        }
        if buf.is_empty() {
            s.empty_calls += 1;
            return Act::Take(0);
        }
        let step = s.script.as_ref().map(|sc| sc.at(s.pos)).unwrap_or(Step::All);
        s.pos += 1;
        match step {
            Step::NotReady => {
                s.not_ready += 1;
                s.pending_in_poll = true;
                let at = (s.rec.len(), s.pos - 1);
                s.not_ready_at.push(at);
                Act::NotReady
            }
            Step::Fail => {
                s.broken = true;
                s.failures += 1;
                s.failed_at = Some(s.rec.len());
                Act::Fail
            }
            st => {
                let k = amount(st, buf.len());
                s.rec.extend_from_slice(&buf[..k]);
                Act::Take(k)
            }
        }
    }
}

fn broken() -> io::Error {
    io::Error::new(io::ErrorKind::BrokenPipe, "scripted transport failure")
}

impl io::Write for Sink {
    fn write(&mut self, buf: &[u8]) -> io::Result<usize> {
        match self.act(buf) {
            Act::Take(k) => Ok(k),
            Act::NotReady => Err(io::Error::new(io::ErrorKind::Interrupted, "scripted interrupt")),
            Act::Fail => Err(broken()),
        }
    }
    fn flush(&mut self) -> io::Result<()> {
        self.0.borrow_mut().flushes += 1;
        Ok(())
    }
}

impl AsyncWrite for Sink {
    fn poll_write(self: Pin<&mut Self>, cx: &mut Context<'_>, buf: &[u8]) -> Poll<io::Result<usize>> {
        match self.act(buf) {
            Act::Take(k) => Poll::Ready(Ok(k)),
            Act::NotReady => {
                cx.waker().wake_by_ref();
                Poll::Pending
            }
            Act::Fail => Poll::Ready(Err(broken())),
        }
    }
    fn poll_flush(self: Pin<&mut Self>, _cx: &mut Context<'_>) -> Poll<io::Result<()>> {
        self.0.borrow_mut().flushes += 1;
        Poll::Ready(Ok(()))
    }
    fn poll_shutdown(self: Pin<&mut Self>, _cx: &mut Context<'_>) -> Poll<io::Result<()>> {
        Poll::Ready(Ok(()))
    }
}

/// What a source delivered.
#[derive(Debug, Default)]
pub struct SourceState {
    pub data: Vec<u8>,
    pub off: usize,
    pub script: Option<Script>,
    pub pos: usize,
    pub calls: u64,
    pub not_ready: u64,
    pub pending_in_poll: bool,
    pub eof_reads: u64,
    /// sizes delivered, in order (witness of the segmentation)
    pub delivered: Vec<usize>,
}

/// Scripted byte source (blocking and non-blocking). After the data is exhausted it reports
/// end of stream (0 bytes).
#[derive(Clone)]
pub struct Source(pub Rc<RefCell<SourceState>>);

impl Source {
    pub fn new(data: Vec<u8>, script: Script) -> Self {
        Source(Rc::new(RefCell::new(SourceState { data, script: Some(script), ..Default::default() })))
    }
    pub fn clear_poll_flag(&self) {
        self.0.borrow_mut().pending_in_poll = false;
    }
    pub fn pending_in_poll(&self) -> bool {
        self.0.borrow().pending_in_poll
    }
    /// bytes not yet delivered
    pub fn unread(&self) -> Vec<u8> {
        let s = self.0.borrow();
        s.data[s.off..].to_vec()
    }
    /// returns Some(bytes) or None for not-ready
    fn deliver(&self, room: usize) -> Option<Vec<u8>> {
        let mut s = self.0.borrow_mut();
        s.calls += 1;
        let left = s.data.len() - s.off;
        if left == 0 || room == 0 {
            if left == 0 {
                s.eof_reads += 1;
            }
            return Some(Vec::new());
        }
        let step = s.script.as_ref().map(|sc| sc.at(s.pos)).unwrap_or(Step::All);
        s.pos += 1;
        match step {
            Step::NotReady | Step::Fail => {
                s.not_ready += 1;
                s.pending_in_poll = true;
                None
            }
            st => {
                let k = amount(st, left.min(room));
                let off = s.off;
                s.off += k;
                s.delivered.push(k);
                Some(s.data[off..off + k].to_vec())
            }
        }
    }
}

impl io::Read for Source {
    fn read(&mut self, buf: &mut [u8]) -> io::Result<usize> {
        match self.deliver(buf.len()) {
            Some(b) => {
                buf[..b.len()].copy_from_slice(&b);
                Ok(b.len())
            }
            None => Err(io::Error::new(io::ErrorKind::Interrupted, "scripted interrupt")),
        }
    }
}

impl AsyncRead for Source {
    fn poll_read(self: Pin<&mut Self>, cx: &mut Context<'_>, buf: &mut ReadBuf<'_>) -> Poll<io::Result<()>> {
        match self.deliver(buf.remaining()) {
            Some(b) => {
                buf.put_slice(&b);
                Poll::Ready(Ok(()))
            }
            None => {
                cx.waker().wake_by_ref();
                Poll::Pending
            }
        }
    }
}

/// Waker that counts wake-ups (the manual poll loops of the monitors use it to tell a
/// self-woken `Pending` from a lost wake-up).
pub struct CountingWaker(pub AtomicU64);

impl Wake for CountingWaker {
    fn wake(self: Arc<Self>) {
        self.0.fetch_add(1, Ordering::SeqCst);
    }
    fn wake_by_ref(self: &Arc<Self>) {
        self.0.fetch_add(1, Ordering::SeqCst);
    }
}

pub fn counting_waker() -> (Arc<CountingWaker>, Waker) {
    let c = Arc::new(CountingWaker(AtomicU64::new(0)));
    let w = Waker::from(c.clone());
    (c, w)
}

/// Split a byte stream into a `Script` of exact read sizes from a list of cut positions.
pub fn script_from_cuts(cuts: &[usize], total: usize) -> Script {
    let mut steps = Vec::new();
    let mut prev = 0usize;
    for &c in cuts {
        if c > prev && c < total {
            steps.push(Step::Upto(c - prev));
            prev = c;
        }
    }
    Script { steps, tail: Step::All, cyclic: false }
}
