//! Fault-injecting transports for C34: a writer/reader that works normally for `fail_at` bytes
//! and then fails, recording what got through.

use std::io::{self, Read, Write};

#[derive(Clone, Copy, Debug, PartialEq)]
pub enum FailMode {
    /// `write` returns an I/O error once the budget is used up
    Err,
    /// `write` returns Ok(0) once the budget is used up
    WriteZero,
}

pub struct FailingWriter {
    pub accepted: Vec<u8>,
    pub fail_at: usize,
    pub mode: FailMode,
    pub failures: usize,
}

impl FailingWriter {
    pub fn new(fail_at: usize, mode: FailMode) -> Self {
        FailingWriter { accepted: Vec::new(), fail_at, mode, failures: 0 }
    }
}

impl Write for FailingWriter {
    fn write(&mut self, buf: &[u8]) -> io::Result<usize> {
        if buf.is_empty() {
            return Ok(0);
        }
        let room = self.fail_at.saturating_sub(self.accepted.len());
        if room == 0 {
            self.failures += 1;
            return match self.mode {
                FailMode::Err => Err(io::Error::new(io::ErrorKind::Other, "injected write failure")),
                FailMode::WriteZero => Ok(0),
            };
        }
        let n = room.min(buf.len());
        self.accepted.extend_from_slice(&buf[..n]);
        Ok(n)
    }
    fn flush(&mut self) -> io::Result<()> {
        Ok(())
    }
}

pub struct FailingReader<'a> {
    pub data: &'a [u8],
    pub at: usize,
    pub fail_at: usize,
    pub failures: usize,
}

impl<'a> FailingReader<'a> {
    pub fn new(data: &'a [u8], fail_at: usize) -> Self {
        FailingReader { data, at: 0, fail_at, failures: 0 }
    }
}

impl Read for FailingReader<'_> {
    fn read(&mut self, buf: &mut [u8]) -> io::Result<usize> {
        if buf.is_empty() {
            return Ok(0);
        }
        let limit = self.fail_at.min(self.data.len());
        if self.at >= limit {
            if self.at >= self.data.len() && self.fail_at >= self.data.len() {
                return Ok(0);
            }
            self.failures += 1;
            return Err(io::Error::new(io::ErrorKind::Other, "injected read failure"));
        }
        let n = (limit - self.at).min(buf.len());
        buf[..n].copy_from_slice(&self.data[self.at..self.at + n]);
        self.at += n;
        Ok(n)
    }
}
