//! C16 probe: runs the shared registry monitor under this build's feature set and writes a
//! result document in the format of the main harness.
//! Usage: c16probe <features-label> <result.json>

#[path = "../../src/props/c16core.rs"]
mod c16core;

use serde_json::json;

fn main() {
    let args: Vec<String> = std::env::args().collect();
    let label = args.get(1).cloned().unwrap_or_else(|| "?".into());
    let out = args.get(2).cloned().unwrap_or_else(|| "c16probe.json".into());
    let start = std::time::Instant::now();
    let s = c16core::check_registry(&label);
    let violations: Vec<_> = s
        .violations
        .iter()
        .map(|(k, (what, witness, count))| {
            json!({"key": format!("features=[{}]|{}", label, k), "what": what,
                   "replay": {"feature_set": label, "witness": witness}, "count": count})
        })
        .collect();
    let doc = json!({
        "property_id": "C16",
        "evaluations": s.evaluations,
        "distinct_nontrivial": s.classes.len(),
        "classes_head": s.classes.iter().take(100).collect::<Vec<_>>(),
        "rule": format!("same registry monitor under cargo features [{}]", label),
        "samples": s.samples.iter().take(2).map(|x| json!({"transfer_syntax": x})).collect::<Vec<_>>(),
        "counters": s.counters.iter().map(|(k, v)| (format!("{}[{}]", k, label), json!(v))).collect::<serde_json::Map<_, _>>(),
        "notes": s.notes.iter().map(|n| format!("[{}] {}", label, n)).collect::<Vec<_>>(),
        "violations": violations,
        "exhaustive": true,
        "inconclusive": if s.evaluations < 300 { json!(format!("only {} evaluations under [{}]", s.evaluations, label)) } else { json!(null) },
        "extra": {},
        "wall_s": start.elapsed().as_secs_f64(),
    });
    std::fs::write(&out, serde_json::to_string_pretty(&doc).unwrap()).expect("write result");
    eprintln!("[c16probe {}] evaluations={} classes={} violation-keys={}", label, s.evaluations, s.classes.len(), s.violations.len());
}
