#!/usr/bin/env python3
"""Maintenance helper: merge drivers/props.py from an agent branch into ours
(new top-level functions/imports and new PROPS entries are appended)."""
import re, subprocess, sys
branch = sys.argv[1]
ours = subprocess.run(['git', 'show', 'HEAD:drivers/props.py'], capture_output=True, text=True, cwd='/verif').stdout
theirs = subprocess.run(['git', 'show', branch + ':drivers/props.py'], capture_output=True, text=True, cwd='/verif').stdout
def split(src):
    i = src.index('\nPROPS = {')
    head, props = src[:i], src[i:]
    # top-level blocks of head
    blocks = re.split(r'\n(?=def |class |[A-Z][A-Z0-9_]* = )', head)
    return blocks, props
ob, op = split(ours)
tb, tp = split(theirs)
def name(b):
    m = re.match(r'\s*(?:def|class)\s+(\w+)|\s*([A-Z][A-Z0-9_]*) = ', b)
    return (m.group(1) or m.group(2)) if m else None
onames = {name(b) for b in ob}
extra = [b for b in tb if name(b) and name(b) not in onames]
# PROPS entries: split on lines starting with '    "Cxx":'
def entries(props):
    body = props[props.index('{') + 1: props.rindex('}')]
    parts = re.split(r'\n(?=    "C\d+":)', body)
    return {re.search(r'"(C\d+)"', p).group(1): p.strip('\n') for p in parts if re.search(r'"(C\d+)"', p)}
oe, te = entries(op), entries(tp)
for k, v in te.items():
    if k not in oe:
        oe[k] = v
head = '\n'.join(ob) + ('\n' + '\n'.join(extra) if extra else '')
out = head.rstrip('\n') + '\n\n\nPROPS = {\n' + '\n'.join(oe[k] for k in sorted(oe)) + '\n}\n'
open('/verif/drivers/props.py', 'w').write(out)
print('added functions:', [name(b) for b in extra], 'entries:', [k for k in te if k not in entries(op)])
