#!/usr/bin/env python3
"""Independent comparison of a stored / transmitted data set with the stream that was sent
(used by C32 and C33). Built on O-PARSE (ps35_parse.py); shares no code with dicom-rs.

compare_file(sent, ts_uid, file_bytes, sop_class, sop_instance, sq_tags) -> [(kind, text), ...]
    `sent`        data set bytes exactly as the requestor put them on the wire (negotiated TS)
    `file_bytes`  the Part 10 file the SCP wrote
    checks: preamble/DICM/meta group structure, (0002,0010) == negotiated TS,
            (0002,0002)/(0002,0003) == the data set's SOP class / instance,
            the file body parses in that TS and equals `sent` element by element.

compare_streams(a, b, ts_uid, sq_tags, check_vr=True) -> [(kind, text), ...]
    both streams in the same transfer syntax.

Equality of two parsed trees: same tag sequence at every level, same VR (explicit syntaxes), same
number of items / fragments, same basic offset table, same value bytes (same stored length; bytes
equal after removing trailing pad bytes 0x00/0x20, since a reader may re-pad). Item and sequence
length encodings (defined/undefined) are not compared.
"""
import ps35_parse as pp

PAD = b"\x00 "


def ts_name(uid):
    return pp.UID_TS.get(uid, "ExplicitLE")


def _lookup(sq_tags):
    if not sq_tags:
        return None
    s = set(sq_tags)
    return lambda g, el: "SQ" if "%04X%04X" % (g, el) in s else None


def _cmp_elems(a, da, b, db, path, errs, check_vr):
    ta = [n["tag"] for n in a]
    tb = [n["tag"] for n in b]
    if ta != tb:
        errs.append(("tags", "%s: tag sequence differs: sent %s stored %s" % (path or "/", ta[:40], tb[:40])))
        return
    for x, y in zip(a, b):
        p = x["path"]
        if check_vr and x["vr"] is not None and y["vr"] is not None and x["vr"] != y["vr"]:
            errs.append(("vr", "%s: VR %s sent, %s found" % (p, x["vr"], y["vr"])))
            continue
        if ("items" in x) != ("items" in y) or ("frags" in x) != ("frags" in y):
            errs.append(("kind", "%s: sequence/fragments on one side only" % p))
            continue
        if "items" in x:
            if len(x["items"]) != len(y["items"]):
                errs.append(("items", "%s: %d items sent, %d found" % (p, len(x["items"]), len(y["items"]))))
                continue
            for i, (ix, iy) in enumerate(zip(x["items"], y["items"])):
                _cmp_elems(ix["elems"], da, iy["elems"], db, "%s[%d]." % (p, i), errs, check_vr)
        elif "frags" in x:
            if x.get("bot") != y.get("bot"):
                errs.append(("bot", "%s: offset table %s sent, %s found" % (p, x.get("bot"), y.get("bot"))))
            if len(x["frags"]) != len(y["frags"]):
                errs.append(("fragments", "%s: %d fragments sent, %d found" % (p, len(x["frags"]), len(y["frags"]))))
                continue
            for i, (fx, fy) in enumerate(zip(x["frags"], y["frags"])):
                vx = da[fx["hdr"] + 8:fx["hdr"] + 8 + fx["len"]]
                vy = db[fy["hdr"] + 8:fy["hdr"] + 8 + fy["len"]]
                if vx != vy:
                    errs.append(("fragments", "%s: fragment %d differs" % (p, i)))
        else:
            vx = da[x["val"]:x["val"] + x["len"]]
            vy = db[y["val"]:y["val"] + y["len"]]
            if vx == vy:
                continue
            if len(vx) == len(vy) and vx.rstrip(PAD) == vy.rstrip(PAD):
                continue
            errs.append(("value", "%s (%s): value bytes differ: sent %s stored %s" % (
                p, x["vr"], vx[:32].hex(), vy[:32].hex())))


def compare_streams(a, b, ts_uid, sq_tags=None, check_vr=True):
    errs = []
    name = ts_name(ts_uid)
    lk = _lookup(sq_tags)
    ea, e1, da = pp.parse(a, name, lk)
    if ea is None or e1:
        # the reference stream itself must be clean: otherwise this is a harness problem
        return [("harness", "sent stream does not parse: %s" % e1[:3])]
    eb, e2, db = pp.parse(b, name, lk)
    if eb is None:
        return [("structure", "stored stream does not parse: %s" % e2[:3])]
    for m in e2[:5]:
        errs.append(("structure", m))
    if e2:
        return errs
    _cmp_elems(ea, da, eb, db, "", errs, check_vr and name != "ImplicitLE")
    return errs


def _meta_value(data, melems, tag):
    for n in melems:
        if n["tag"] == tag:
            return data[n["val"]:n["val"] + n["len"]].rstrip(PAD).decode("latin-1")
    return None


def compare_file(sent, ts_uid, file_bytes, sop_class, sop_instance, sq_tags=None):
    errs = []
    f, e, _ = pp.parse_file(file_bytes)
    if f is None:
        return [("file-structure", "; ".join(e[:3]))]
    for m in e[:5]:
        errs.append(("file-structure", m))
    if f["ts_uid"] != ts_uid:
        errs.append(("meta-ts", "(0002,0010) = %r, negotiated %r" % (f["ts_uid"], ts_uid)))
    mc = _meta_value(file_bytes, f["meta"], "00020002")
    mi = _meta_value(file_bytes, f["meta"], "00020003")
    if mc != sop_class:
        errs.append(("meta-sop-class", "(0002,0002) = %r, data set SOP class %r" % (mc, sop_class)))
    if mi != sop_instance:
        errs.append(("meta-sop-instance", "(0002,0003) = %r, data set SOP instance %r" % (mi, sop_instance)))
    if f["ts_uid"] != ts_uid:
        return errs
    body = file_bytes[f["meta_end"]:]
    errs += compare_streams(sent, body, ts_uid, sq_tags)
    return errs


def run_records(path):
    """Process a JSONL file written by the harness. Returns (n_records, {key: (count, what, replay)})."""
    import json
    out = {}
    n = 0
    skipped = 0
    with open(path) as fh:
        for line in fh:
            line = line.strip()
            if not line:
                continue
            rec = json.loads(line)
            if rec.get("sq_ambiguous"):
                skipped += 1
                continue
            n += 1
            if rec.get("kind") == "stream-vs-file":
                # C33: reference = body of the file the SCU was given, other = bytes it transmitted
                ref = bytes.fromhex(rec["ref_file_hex"])
                other = bytes.fromhex(rec["stream_hex"])
                f, e, _ = pp.parse_file(ref)
                if f is None or e or f["ts_uid"] != rec["ts_uid"]:
                    errs = [("harness", "reference file unusable: %s" % (e[:2],))]
                else:
                    errs = compare_streams(ref[f["meta_end"]:], other, rec["ts_uid"], rec.get("sq_tags"))
                rec["sent_hex"], rec["file_hex"] = rec["ref_file_hex"], rec["stream_hex"]
            else:
                sent = bytes.fromhex(rec["sent_hex"])
                fileb = bytes.fromhex(rec["file_hex"])
                errs = compare_file(sent, rec["ts_uid"], fileb, rec["sop_class"], rec["sop_instance"],
                                    rec.get("sq_tags"))
            for kind, text in errs:
                key = "%s|oparse|%s|ts=%s|mode=%s" % (rec.get("prop", "C32"), kind, rec["ts"], rec["mode"])
                if key not in out:
                    out[key] = [0, text, {"seed": rec.get("seed"), "case": rec.get("case"),
                                          "stream": rec.get("stream", 32), "ts_uid": rec["ts_uid"],
                                          "uid_class": rec.get("uid_class"),
                                          "sent_hex": rec["sent_hex"][:8192],
                                          "file_hex": rec["file_hex"][:8192]}]
                out[key][0] += 1
    return n, skipped, out
