#!/usr/bin/env python3
"""O-PARSE: independent structural PS3.5 parser/validator (written from the standard; shares
no code with dicom-rs).

Parses a data set encoded in Implicit VR LE, Explicit VR LE or Explicit VR BE (and raw-deflated
Explicit VR LE) into a tree with byte offsets, and validates:
  * 16/32-bit length form per VR (own table), reserved bytes zero
  * every defined value length is even
  * defined-length sequences/items end exactly where their length says
  * undefined-length ones are closed by the matching delimiter (length field 0)
  * encapsulated pixel data: items only, BOT length multiple of 4, closed by sequence delimiter
  * no trailing garbage, no truncated element
  * (optional) pad byte checks when the caller supplies unpadded lengths per element path

Usage as a library: parse(data, ts) -> (tree, errors).
CLI: ps35_parse.py validate <records.jsonl> <out.json>
     records: {"id":..., "ts": "ImplicitLE|ExplicitLE|ExplicitBE|DeflatedLE", "hex": "...",
               "unpadded": {"<path>": n, ...}?, "file": bool?}
"""
import json
import struct
import sys
import zlib

SHORT_VRS = {
    "AE", "AS", "AT", "CS", "DA", "DS", "DT", "FL", "FD", "IS", "LO", "LT", "PN", "SH", "SL",
    "SS", "ST", "TM", "UI", "UL", "US",
}
LONG_VRS = {"OB", "OD", "OF", "OL", "OV", "OW", "SQ", "SV", "UC", "UN", "UR", "UT", "UV"}
ALL_VRS = SHORT_VRS | LONG_VRS
SPACE_PAD = {"AE", "AS", "CS", "DA", "DS", "DT", "IS", "LO", "LT", "PN", "SH", "ST", "TM", "UC",
             "UR", "UT"}
UNDEF = 0xFFFFFFFF


class ParseError(Exception):
    pass


class Parser:
    def __init__(self, data, explicit, big, implicit_vr_lookup=None, max_depth=64):
        self.d = data
        self.explicit = explicit
        self.e = ">" if big else "<"
        self.errors = []
        self.lookup = implicit_vr_lookup
        self.max_depth = max_depth

    def u16(self, off):
        if off + 2 > len(self.d):
            raise ParseError("truncated at %d (need u16)" % off)
        return struct.unpack_from(self.e + "H", self.d, off)[0]

    def u32(self, off):
        if off + 4 > len(self.d):
            raise ParseError("truncated at %d (need u32)" % off)
        return struct.unpack_from(self.e + "I", self.d, off)[0]

    def err(self, msg):
        self.errors.append(msg)

    def parse_dataset(self, off, end, path, depth, in_item_undefined=False):
        """Parse elements from off up to end (or to an item delimiter when in_item_undefined).
        Returns (elements, new_off)."""
        elems = []
        last_tag = None
        while True:
            if end is not None and off == end:
                if in_item_undefined:
                    pass
                return elems, off
            if end is not None and off > end:
                self.err("%s: content overruns its container (at %d, container ends at %d)" % (path, off, end))
                return elems, off
            if off == len(self.d):
                if in_item_undefined:
                    self.err("%s: undefined-length item not closed by an item delimiter" % path)
                elif end is not None:
                    self.err("%s: stream ends at %d before container end %d" % (path, off, end))
                return elems, off
            g = self.u16(off)
            el = self.u16(off + 2)
            if g == 0xFFFE:
                ln = self.u32(off + 4)
                if el == 0xE00D and in_item_undefined:
                    if ln != 0:
                        self.err("%s: item delimiter with length %d" % (path, ln))
                    return elems, off + 8
                self.err("%s: unexpected delimiter/item tag (FFFE,%04X) at %d" % (path, el, off))
                return elems, len(self.d) + 1
            tag = (g, el)
            if last_tag is not None and tag <= last_tag:
                self.err("%s: tags not in ascending order at %d: %04X%04X after %04X%04X" % (
                    path, off, g, el, last_tag[0], last_tag[1]))
            last_tag = tag
            hdr_at = off
            if self.explicit:
                if off + 6 > len(self.d):
                    raise ParseError("truncated header at %d" % off)
                vr = self.d[off + 4:off + 6].decode("latin-1")
                if vr not in ALL_VRS:
                    self.err("%s: unknown VR %r at %d" % (path, vr, off))
                    return elems, len(self.d) + 1
                if vr in SHORT_VRS:
                    ln = self.u16(off + 6)
                    off += 8
                else:
                    if self.d[off + 6:off + 8] != b"\x00\x00":
                        self.err("%s: reserved bytes not zero at %d" % (path, off + 6))
                    ln = self.u32(off + 8)
                    off += 12
            else:
                vr = None
                ln = self.u32(off + 4)
                off += 8
            p = "%s%04X%04X" % (path, g, el)
            node = {"path": p, "tag": "%04X%04X" % (g, el), "vr": vr, "len": ln, "hdr": hdr_at,
                    "val": off}
            is_pixel = tag == (0x7FE0, 0x0010)
            is_seq = vr == "SQ"
            if vr is None and ln == UNDEF and not is_pixel:
                is_seq = True
            if vr is None and self.lookup is not None and not is_seq and not is_pixel:
                if self.lookup(g, el) == "SQ":
                    is_seq = True
            if ln == UNDEF and not is_seq and not is_pixel:
                if vr == "UN":
                    is_seq = True  # PS3.5 6.2.2: UN with undefined length is parsed as a sequence
                else:
                    self.err("%s: undefined length on a non-sequence %s element" % (p, vr))
                    return elems, len(self.d) + 1
            if is_pixel and ln == UNDEF:
                off = self.parse_fragments(off, p, node)
            elif is_seq:
                if depth >= self.max_depth:
                    raise ParseError("nesting too deep")
                off = self.parse_sequence(off, ln, p, depth, node)
            else:
                if ln % 2 == 1:
                    self.err("%s: odd value length %d" % (p, ln))
                if off + ln > len(self.d):
                    self.err("%s: value of length %d at %d runs past the end of the stream (%d)" % (
                        p, ln, off, len(self.d)))
                    return elems, len(self.d) + 1
                node["last"] = self.d[off + ln - 1] if ln > 0 else None
                off += ln
            node["end"] = off
            elems.append(node)

    def parse_sequence(self, off, ln, p, depth, node):
        items = []
        node["items"] = items
        end = None if ln == UNDEF else off + ln
        if end is not None and end > len(self.d):
            self.err("%s: sequence length %d runs past the end of the stream" % (p, ln))
            return len(self.d) + 1
        i = 0
        while True:
            if end is not None and off == end:
                return off
            if end is not None and off > end:
                self.err("%s: items overrun the sequence length (at %d, ends at %d)" % (p, off, end))
                return off
            if off >= len(self.d):
                self.err("%s: undefined-length sequence not closed by a sequence delimiter" % p)
                return off
            g = self.u16(off)
            el = self.u16(off + 2)
            il = self.u32(off + 4)
            if (g, el) == (0xFFFE, 0xE0DD):
                if end is not None:
                    self.err("%s: sequence delimiter inside a defined-length sequence at %d" % (p, off))
                if il != 0:
                    self.err("%s: sequence delimiter with length %d" % (p, il))
                return off + 8
            if (g, el) != (0xFFFE, 0xE000):
                self.err("%s: expected an item at %d, found (%04X,%04X)" % (p, off, g, el))
                return len(self.d) + 1
            ip = "%s[%d]." % (p, i)
            item = {"hdr": off, "len": il}
            off += 8
            if il == UNDEF:
                elems, off = self.parse_dataset(off, None, ip, depth + 1, in_item_undefined=True)
            else:
                if il % 2 == 1:
                    self.err("%sitem: odd item length %d" % (ip, il))
                iend = off + il
                if iend > len(self.d):
                    self.err("%sitem: item length %d runs past the end of the stream" % (ip, il))
                    return len(self.d) + 1
                elems, off2 = self.parse_dataset(off, iend, ip, depth + 1)
                if off2 != iend:
                    if off2 <= len(self.d):
                        self.err("%sitem: content ends at %d but item length says %d" % (ip, off2, iend))
                    off = max(off2, iend)
                else:
                    off = iend
            item["elems"] = elems
            item["end"] = off
            items.append(item)
            i += 1
            if off > len(self.d):
                return off

    def parse_fragments(self, off, p, node):
        frags = []
        node["frags"] = frags
        first = True
        while True:
            if off >= len(self.d):
                self.err("%s: encapsulated pixel data not closed by a sequence delimiter" % p)
                return off
            g = self.u16(off)
            el = self.u16(off + 2)
            il = self.u32(off + 4)
            if (g, el) == (0xFFFE, 0xE0DD):
                if il != 0:
                    self.err("%s: sequence delimiter with length %d" % (p, il))
                if first:
                    self.err("%s: encapsulated pixel data without a basic offset table item" % p)
                return off + 8
            if (g, el) != (0xFFFE, 0xE000):
                self.err("%s: expected a fragment item at %d, found (%04X,%04X)" % (p, off, g, el))
                return len(self.d) + 1
            if il == UNDEF:
                self.err("%s: fragment with undefined length at %d" % (p, off))
                return len(self.d) + 1
            if il % 2 == 1:
                self.err("%s: odd fragment length %d at %d" % (p, il, off))
            if off + 8 + il > len(self.d):
                self.err("%s: fragment of length %d at %d runs past the end" % (p, il, off))
                return len(self.d) + 1
            if first:
                if il % 4 != 0:
                    self.err("%s: basic offset table length %d not a multiple of 4" % (p, il))
                node["bot"] = [self.u32(off + 8 + 4 * k) for k in range(il // 4)]
                first = False
            else:
                frags.append({"hdr": off, "len": il})
            off += 8 + il


TS = {
    "ImplicitLE": (False, False),
    "ExplicitLE": (True, False),
    "ExplicitBE": (True, True),
    "DeflatedLE": (True, False),
}


def parse(data, ts, lookup=None):
    """Returns (elements or None, errors)."""
    explicit, big = TS[ts]
    if ts == "DeflatedLE":
        try:
            data = zlib.decompress(data, -15)
        except zlib.error as e:
            return None, ["deflate stream invalid: %s" % e], data
    p = Parser(data, explicit, big, lookup)
    try:
        elems, off = p.parse_dataset(0, None, "", 0)
        if off < len(data):
            p.err("trailing bytes after the data set at %d" % off)
    except ParseError as e:
        p.err(str(e))
        elems = None
    return elems, p.errors, data


def walk(elems):
    for n in elems:
        yield n
        for it in n.get("items", []):
            for m in walk(it["elems"]):
                yield m


def check_padding(elems, data, unpadded, vrmap=None):
    """unpadded: {path: unpadded byte length}. Requires stored length = unpadded rounded up to even,
    and for odd unpadded the pad byte to be space for text VRs, NUL otherwise."""
    errs = []
    seen = 0
    for n in walk(elems):
        if n["path"] in unpadded and "items" not in n and "frags" not in n:
            seen += 1
            u = unpadded[n["path"]]
            want = u + (u & 1)
            if n["len"] != want:
                errs.append("%s: stored length %d but value has %d bytes (expected %d)" % (
                    n["path"], n["len"], u, want))
            elif u & 1:
                vr = n["vr"] or (vrmap or {}).get(n["path"])
                if vr is None:
                    continue
                pad = 0x20 if vr in SPACE_PAD else 0x00
                if n["last"] != pad:
                    errs.append("%s: VR %s padded with 0x%02X instead of 0x%02X" % (
                        n["path"], vr, n["last"], pad))
    return errs, seen


def parse_file(data):
    """Part 10 file: 128-byte preamble, DICM, meta group (Explicit LE), data set in TS from meta."""
    errs = []
    if len(data) < 132 or data[128:132] != b"DICM":
        return None, ["no DICM magic code after a 128-byte preamble"], None
    off = 132
    p = Parser(data, True, False)
    # group length element first
    try:
        if p.u16(off) != 2 or p.u16(off + 2) != 0:
            errs.append("file meta group does not start with (0002,0000)")
            return None, errs, None
        if data[off + 4:off + 6] != b"UL" or p.u16(off + 6) != 4:
            errs.append("(0002,0000) is not UL with length 4")
            return None, errs, None
        glen = p.u32(off + 8)
        mstart = off + 12
        mend = mstart + glen
        if mend > len(data):
            errs.append("file meta group length runs past the end of the file")
            return None, errs, None
        melems, moff = p.parse_dataset(mstart, mend, "meta:", 0)
        errs += p.errors
        for n in melems:
            if not n["tag"].startswith("0002"):
                errs.append("element %s inside the declared file meta group" % n["tag"])
        ts_uid = None
        for n in melems:
            if n["tag"] == "00020010":
                ts_uid = data[n["val"]:n["val"] + n["len"]].rstrip(b"\x00 ").decode("latin-1")
        return {"meta": melems, "meta_end": mend, "ts_uid": ts_uid, "group_length": glen}, errs, None
    except ParseError as e:
        return None, errs + [str(e)], None


UID_TS = {
    "1.2.840.10008.1.2": "ImplicitLE",
    "1.2.840.10008.1.2.1": "ExplicitLE",
    "1.2.840.10008.1.2.2": "ExplicitBE",
    "1.2.840.10008.1.2.1.99": "DeflatedLE",
}


def validate_record(rec):
    data = bytes.fromhex(rec["hex"])
    errs = []
    info = {}
    if rec.get("file"):
        f, e, _ = parse_file(data)
        errs += e
        if f is None:
            return errs, info
        ts = UID_TS.get(f["ts_uid"], "ExplicitLE")
        info["ts_uid"] = f["ts_uid"]
        info["group_length"] = f["group_length"]
        body = data[f["meta_end"]:]
        elems, e, plain = parse(body, ts)
        errs += e
    else:
        elems, e, plain = parse(data, rec["ts"])
        errs += e
    if elems is not None:
        info["elements"] = sum(1 for _ in walk(elems))
        if rec.get("unpadded"):
            e, seen = check_padding(elems, plain, rec["unpadded"], rec.get("vrs"))
            errs += e
            info["pad_checked"] = seen
    return errs, info


def main():
    if len(sys.argv) >= 4 and sys.argv[1] == "validate":
        out = {"records": 0, "violations": [], "elements": 0, "pad_checked": 0}
        with open(sys.argv[2]) as fh:
            for line in fh:
                if not line.strip():
                    continue
                rec = json.loads(line)
                errs, info = validate_record(rec)
                out["records"] += 1
                out["elements"] += info.get("elements", 0)
                out["pad_checked"] += info.get("pad_checked", 0)
                if errs:
                    out["violations"].append({"id": rec.get("id"), "errors": errs[:5], "ctx": rec.get("ctx")})
        json.dump(out, open(sys.argv[3], "w"))
        return 0
    if len(sys.argv) >= 4 and sys.argv[1] == "dump":
        data = bytes.fromhex(open(sys.argv[3]).read().strip())
        elems, errs, _ = parse(data, sys.argv[2])
        print(json.dumps(elems, indent=1)[:20000])
        print(errs)
        return 0
    print(__doc__)
    return 2


if __name__ == "__main__":
    sys.exit(main())
