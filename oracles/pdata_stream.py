"""Independent oracle for C26: decides the P-DATA writer clauses on a recorded byte stream.

Written from PS3.8 section 9.3.5 (P-DATA-TF PDU: type 04H, reserved, 4-byte big-endian length,
then presentation-data-value items: 4-byte item length, presentation context id, message control
header (bit 0: command, bit 1: last fragment), data) and the property statement. Shares no code
with dicom-rs or with the Rust monitor.

verdict(record) -> None if every clause holds, else the name of the first failing clause, using
the same clause names as the Rust monitor so that the two verdicts can be compared.
"""
import json
import struct


def split_pdus(b):
    out, off = [], 0
    while off < len(b):
        if len(b) - off < 6:
            return None, "not-pdu-sequence:truncated-pdu-header"
        ptype, res, ln = struct.unpack_from(">BBI", b, off)
        if off + 6 + ln > len(b):
            return None, "not-pdu-sequence:truncated-pdu-body"
        out.append((ptype, res, ln, b[off + 6:off + 6 + ln]))
        off += 6 + ln
    return out, None


def split_pdvs(body):
    out, p = [], 0
    while p < len(body):
        if len(body) - p < 4:
            return None, "truncated-pdv-length"
        (il,) = struct.unpack_from(">I", body, p)
        if il < 2:
            return None, "pdv-length-below-2"
        if p + 4 + il > len(body):
            return None, "pdv-exceeds-pdu"
        out.append((body[p + 4], body[p + 5], body[p + 6:p + 4 + il]))
        p += 4 + il
    return out, None


def stream_clause(stream, maximum, ctx, payload):
    pdus, err = split_pdus(stream)
    if err:
        return err
    if not pdus:
        return "no-pdu"
    cat = b""
    for i, (ptype, res, ln, body) in enumerate(pdus):
        final = i == len(pdus) - 1
        if ptype != 4:
            return "pdu-type"
        if res != 0:
            return "reserved-byte"
        if ln > maximum:
            return "pdu-length-exceeds-max"
        pdvs, e = split_pdvs(body)
        if e:
            return "pdv-structure:" + e
        if len(pdvs) != 1:
            return "pdv-count"
        c, ctrl, data = pdvs[0]
        if c != ctx:
            return "context-id"
        if ctrl & 1:
            return "control-header:command-bit"
        if ctrl & 0xFC:
            return "control-header:reserved-bits"
        last = bool(ctrl & 2)
        if last and not final:
            return "last-flag:on-non-final"
        if final and not last:
            return "last-flag:missing-on-final"
        cat += data
    if cat != payload:
        if len(cat) < len(payload) and payload.startswith(cat):
            return "payload:truncated"
        if len(cat) > len(payload) and cat.startswith(payload):
            return "payload:extended"
        return "payload:content"
    return None


def verdict(rec):
    """Clause name in the form the Rust monitor uses for its key (without the writer prefix)."""
    cap = rec["max"] - 6
    if rec.get("write_error"):
        return "write-error"
    if rec.get("finish_error"):
        return "finish-error"
    c = stream_clause(bytes.fromhex(rec["stream_hex"]), rec["max"], rec["ctx"], bytes.fromhex(rec["payload_hex"]))
    return ("stream|" + c) if c else None


def check_file(path):
    """Returns (records, agreements, disagreements[list of dict])."""
    n = agree = 0
    bad = []
    with open(path) as f:
        for line in f:
            line = line.strip()
            if not line:
                continue
            rec = json.loads(line)
            n += 1
            mine = verdict(rec)
            theirs = rec.get("rust_verdict")
            # the Rust key is "<writer>|<clause...>"; compare the clause family
            theirs_clause = None
            if theirs:
                parts = theirs.split("|")
                theirs_clause = "|".join(parts[1:3]) if parts[1] == "stream" else parts[1]
                if theirs_clause == "bytes-depend-on-transport-schedule":
                    theirs_clause = None  # not decidable from one stream
            if mine == theirs_clause:
                agree += 1
            else:
                bad.append({"python": mine, "rust": theirs, "writer": rec["writer"], "max": rec["max"],
                            "payload_len": len(rec["payload_hex"]) // 2, "stream_len": len(rec["stream_hex"]) // 2})
    return n, agree, bad


if __name__ == "__main__":
    import sys
    n, a, bad = check_file(sys.argv[1])
    print(n, a, bad[:5])
