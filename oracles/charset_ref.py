#!/usr/bin/env python3
"""O-CHARSET: expected encodings of letters/ideographs in each supported DICOM specific character
set, taken from Python's codec tables (independent of the `encoding` crate used by dicom-rs).

Only letters / digits / ideographs (Unicode categories L*, N*) are included: punctuation and
symbols are where the WHATWG tables (used by the Rust `encoding` crate) and Python's tables are
known to differ, and the property does not depend on them.

Usage: charset_ref.py <seed> <out.json>
Output: {"sets": {"<defined term>": {"codec": "...", "pairs": [[codepoint, "hex"], ...],
                                      "stateful": bool}}, "aliases": {...}}
"""
import json
import random
import sys
import unicodedata

SETS = {
    "ISO_IR 6": ("ascii", False),
    "ISO_IR 13": ("cp932", False),
    "ISO_IR 87": ("iso2022_jp", True),
    "ISO_IR 100": ("latin_1", False),
    "ISO_IR 101": ("iso8859_2", False),
    "ISO_IR 109": ("iso8859_3", False),
    "ISO_IR 110": ("iso8859_4", False),
    "ISO_IR 126": ("iso8859_7", False),
    "ISO_IR 127": ("iso8859_6", False),
    "ISO_IR 138": ("iso8859_8", False),
    "ISO_IR 144": ("iso8859_5", False),
    "ISO_IR 149": ("cp949", False),
    "ISO_IR 166": ("cp874", False),
    "ISO_IR 192": ("utf-8", False),
    "GB18030": ("gb18030", False),
    "GBK": ("gbk", False),
}

# defined terms of PS3.3 C.12.1.1.2 that must resolve to each set (with and without code
# extensions); dicom-rs documents these spellings
ALIASES = {
    "ISO_IR 6": ["ISO_IR 6", "ISO 2022 IR 6"],
    "ISO_IR 13": ["ISO_IR 13", "ISO 2022 IR 13"],
    "ISO_IR 87": ["ISO 2022 IR 87"],
    "ISO_IR 100": ["ISO_IR 100", "ISO 2022 IR 100"],
    "ISO_IR 101": ["ISO_IR 101", "ISO 2022 IR 101"],
    "ISO_IR 109": ["ISO_IR 109", "ISO 2022 IR 109"],
    "ISO_IR 110": ["ISO_IR 110", "ISO 2022 IR 110"],
    "ISO_IR 126": ["ISO_IR 126", "ISO 2022 IR 126"],
    "ISO_IR 127": ["ISO_IR 127", "ISO 2022 IR 127"],
    "ISO_IR 138": ["ISO_IR 138", "ISO 2022 IR 138"],
    "ISO_IR 144": ["ISO_IR 144", "ISO 2022 IR 144"],
    "ISO_IR 149": ["ISO 2022 IR 149"],
    "ISO_IR 166": ["ISO_IR 166", "ISO 2022 IR 166"],
    "ISO_IR 192": ["ISO_IR 192"],
    "GB18030": ["GB18030"],
    "GBK": ["GBK"],
}

# characters every set must be able to represent (anchor repertoire) and clearly foreign ones
ANCHORS = {
    "ISO_IR 6": "AZaz09",
    "ISO_IR 13": "ｱｲﾝｦ",
    "ISO_IR 87": "山田あア漢字",
    "ISO_IR 100": "éüßÅñ",
    "ISO_IR 101": "łčőž",
    "ISO_IR 109": "ħĉğ",
    "ISO_IR 110": "ąēķų",
    "ISO_IR 126": "αΩπ",
    "ISO_IR 127": "ابي",
    "ISO_IR 138": "את",
    "ISO_IR 144": "Яжё",
    "ISO_IR 149": "한글가",
    "ISO_IR 166": "กฮ๙",
    "ISO_IR 192": "éα山한\U0001F600",
    "GB18030": "中文é\U00020000",
    "GBK": "中文",
}
FOREIGN = {
    "ISO_IR 6": "山αЖ",
    # dicom-rs documents ISO_IR 13 as WINDOWS_31J (a superset holding JIS X 0208, incl. Greek)
    "ISO_IR 13": "é한",
    "ISO_IR 87": "é한",
    "ISO_IR 100": "山αЖł",
    "ISO_IR 101": "山αЖ",
    "ISO_IR 109": "山αЖ",
    "ISO_IR 110": "山αЖ",
    "ISO_IR 126": "山Жé",
    "ISO_IR 127": "山αЖé",
    "ISO_IR 138": "山αЖé",
    "ISO_IR 144": "山αé",
    "ISO_IR 149": "\U0001F600",
    "ISO_IR 166": "山αЖé",
    "ISO_IR 192": "",
    "GB18030": "",
    "GBK": "\U0001F600",
}


def candidates(term):
    if term == "ISO_IR 13":
        return list(range(0xFF61, 0xFFA0))
    if term == "ISO_IR 166":
        return list(range(0x0E01, 0x0E5C))
    if term in ("ISO_IR 87",):
        return list(range(0x3041, 0x3097)) + list(range(0x30A1, 0x30FB)) + list(range(0x4E00, 0x9FA6))
    if term == "ISO_IR 149":
        return list(range(0xAC00, 0xD7A4)) + list(range(0x4E00, 0x9FA6))
    if term in ("GBK", "GB18030"):
        r = list(range(0x4E00, 0x9FA6)) + list(range(0x3041, 0x3094))
        if term == "GB18030":
            r += list(range(0x20000, 0x20100)) + list(range(0x0100, 0x0180)) + list(range(0xAC00, 0xAC80))
        return r
    if term == "ISO_IR 192":
        return list(range(0x80, 0x800)) + list(range(0x3041, 0x3097)) + list(range(0x4E00, 0x5000)) + list(range(0x1F600, 0x1F650))
    return list(range(0x80, 0x3000))


def main():
    seed = int(sys.argv[1])
    rnd = random.Random(seed)
    out = {"sets": {}, "aliases": ALIASES, "anchors": ANCHORS, "foreign": FOREIGN}
    for term, (codec, stateful) in SETS.items():
        pairs = []
        cands = candidates(term)
        for cp in cands:
            ch = chr(cp)
            cat = unicodedata.category(ch)
            if term != "ISO_IR 192" and not (cat.startswith("L") or cat.startswith("N")):
                continue
            if 0xD800 <= cp <= 0xDFFF:
                continue
            try:
                b = ch.encode(codec)
            except (UnicodeEncodeError, LookupError):
                continue
            try:
                if b.decode(codec) != ch:
                    continue
            except UnicodeDecodeError:
                continue
            pairs.append([cp, b.hex()])
        if len(pairs) > 4000:
            pairs = pairs[:50] + rnd.sample(pairs[50:], 3950)
        out["sets"][term] = {"codec": codec, "stateful": stateful, "pairs": pairs}
    json.dump(out, open(sys.argv[2], "w"))
    return 0


if __name__ == "__main__":
    sys.exit(main())
