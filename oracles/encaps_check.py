#!/usr/bin/env python3
"""C18 file-level oracle: encapsulated pixel data as found in the *written file bytes*.

Input: an index (JSON lines) + one binary blob holding DICOM files written by dicom-rs.
For every file, with nothing but O-PARSE (ps35_parse.py, written from PS3.5):
  * every fragment item has even length
  * the basic offset table has one entry per frame; entry i is the byte offset of the item tag
    of frame i's first fragment from the item tag of the first fragment after the table
  * (7FE0,0003) Encapsulated Pixel Data Value Total Length, when present, equals the sum of the
    fragment item lengths in the file
  * Number of Frames (0028,0008) equals the number of frames
The harness supplies only what it knows by construction: the number of frames and how many
fragments each frame has (`frags_per_frame`; null when unknown -> offset check skipped).
"""
import json
import struct

import ps35_parse


def _find(elems, tag):
    for n in elems:
        if n["tag"] == tag:
            return n
    return None


def check_file(data, rec):
    """Returns (violations [(key, what, extra)], evaluations, counters)."""
    out = []
    evals = 0
    origin = rec["origin"]
    f, errs, _ = ps35_parse.parse_file(data)
    if f is None:
        return [("C18|file|%s|unparsable-file" % origin, "written file is not a Part 10 file: %s" % errs[:2], {})], 1, {}
    body = data[f["meta_end"]:]
    elems, perrs, _plain = ps35_parse.parse(body, "ExplicitLE")
    if elems is None:
        return [("C18|file|%s|unparsable-dataset" % origin, "data set does not parse: %s" % perrs[:2], {})], 1, {}
    px = _find(elems, "7FE00010")
    if px is None or "frags" not in px:
        return [("C18|file|%s|not-encapsulated" % origin, "no encapsulated Pixel Data in the written file", {})], 1, {}
    frags = px["frags"]
    lens = [fr["len"] for fr in frags]
    counters = {"files_parsed": 1, "fragments_in_files": len(frags)}
    # structural findings of the parser that concern the pixel data element (fragment parity is
    # reported separately below)
    evals += 1
    for e in perrs:
        if e.startswith("7FE00010") and "odd fragment length" not in e:
            out.append(("C18|file|%s|structure" % origin, "pixel data structure: %s" % e, {}))
            break
    # 1. even fragments
    evals += 1
    odd = [(i, n) for i, n in enumerate(lens) if n % 2]
    if odd:
        out.append(("C18|file|%s|odd-fragment" % origin,
                    "fragment %d has odd length %d in the written file" % odd[0], {"file_fragment_lengths": lens[:32]}))
    # 2. offset table from the item tag offsets in the file
    bot = px.get("bot", [])
    fpf = rec.get("frags_per_frame")
    if fpf is not None and sum(fpf) == len(frags):
        evals += 1
        expected = []
        idx = 0
        for k in fpf:
            if k == 0 or idx >= len(frags):
                expected.append(None)
            else:
                expected.append(frags[idx]["hdr"] - frags[0]["hdr"])
            idx += k
        if bot != expected:
            mem = rec.get("mem_fragment_lengths") or lens
            noncum = (all(k == 1 for k in fpf) and len(bot) == len(mem)
                      and all(b == mem[i] + 8 * (i + 1) for i, b in enumerate(bot)))
            if noncum:
                d = "entry=len+8(i+1)"
            elif len(bot) != len(expected):
                d = "count"
            elif bot and bot[0] != 0:
                d = "first-not-0"
            else:
                d = "offsets"
            o = "transcode" if origin.startswith("transcode:") else origin
            counters["bot_wrong|file|%s" % origin] = 1
            out.append(("C18|file|%s|bot|%s" % (o, d),
                        "%s: offset table in the file %s, item tags of the frames' first fragments are at %s "
                        "(fragment lengths in the file %s)" % (origin, bot[:8], expected[:8], lens[:8]),
                        {"offset_table_in_file": bot[:64], "offsets_of_first_items": expected[:64],
                         "file_fragment_lengths": lens[:64]}))
    elif fpf is not None:
        evals += 1
        out.append(("C18|file|%s|fragment-count" % origin,
                    "%d fragments in the file, %d expected" % (len(frags), sum(fpf)), {}))
    # 3. total length attribute
    tl = _find(elems, "7FE00003")
    if tl is not None:
        evals += 1
        counters["files_with_total_length"] = 1
        val = None
        if tl["len"] == 8:
            val = struct.unpack_from("<Q", body, tl["val"])[0]
        total = sum(lens)
        if tl["vr"] != "UV" or val != total:
            mem = rec.get("mem_fragment_lengths") or []
            if val is not None and len(lens) > 1 and mem and val == mem[-1]:
                d = "last-fragment-length"
            elif val is not None and mem and val == sum(mem) and sum(mem) != total:
                d = "sum-before-padding"
            else:
                d = "mismatch"
            out.append(("C18|file|%s|total-length|%s" % (origin, d),
                        "%s: (7FE0,0003) = %s (VR %s) in the file, fragment items total %d bytes (lengths %s)" % (
                            origin, val, tl["vr"], total, lens[:8]),
                        {"total_length_in_file": val, "file_fragment_lengths": lens[:64],
                         "fragment_lengths_before_writing": mem[:64]}))
    # 4. number of frames
    nf = _find(elems, "00280008")
    evals += 1
    frames = rec["frames"]
    if nf is None:
        if frames != 1:
            out.append(("C18|file|%s|number-of-frames" % origin, "Number of Frames absent for %d frames" % frames, {}))
    else:
        txt = body[nf["val"]:nf["val"] + nf["len"]].decode("latin-1").strip(" \x00")
        if txt != str(frames):
            out.append(("C18|file|%s|number-of-frames" % origin, "Number of Frames %r for %d frames" % (txt, frames), {}))
    return out, evals, counters


def check_records(index_path, bin_path, limit=None):
    res = {"evaluations": 0, "violations": {}, "counters": {}, "records": 0}
    with open(bin_path, "rb") as fb, open(index_path) as fi:
        for line in fi:
            if not line.strip():
                continue
            rec = json.loads(line)
            fb.seek(rec["off"])
            data = fb.read(rec["len"])
            res["records"] += 1
            try:
                viols, evals, counters = check_file(data, rec)
            except Exception as e:  # oracle crash is never a violation
                res["counters"]["oracle_errors"] = res["counters"].get("oracle_errors", 0) + 1
                res.setdefault("oracle_error_sample", "%s: %s" % (type(e).__name__, e))
                continue
            res["evaluations"] += evals
            for k, v in counters.items():
                res["counters"][k] = res["counters"].get(k, 0) + v
            for key, what, extra in viols:
                v = res["violations"].get(key)
                if v is None:
                    rp = dict(rec.get("replay") or {})
                    rp.update(extra)
                    rp["file_hex"] = data.hex() if len(data) <= 4096 else data[:4096].hex() + "..(+%d bytes)" % (len(data) - 4096)
                    res["violations"][key] = {"key": key, "what": what, "replay": rp, "count": 1}
                else:
                    v["count"] += 1
            if limit and res["records"] >= limit:
                break
    return res
