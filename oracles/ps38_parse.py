#!/usr/bin/env python3
"""O-PS38: independent DICOM upper layer PDU parser/validator, written from PS3.8 §9.3 and
PS3.7 Annex D (shares no code with dicom-rs).

    parse_pdu(buf, off=0)      -> (pdu_dict, end_offset, problems)
    parse_stream(buf)          -> (list_of_pdu_dicts, problems)      (no trailing bytes allowed)
    describe(pdu_dict)         -> normalised abstract description (compare with what was meant)

A *problem* is a tuple (kind, where, message):
  kind  - normalised class used in violation keys, e.g. 'item-length-mismatch'
  where - structural location such as 'rq/item50/sub56'
Hard problems (framing / length / reserved-byte errors) are returned in `problems`; cardinality
remarks that PS3.8 states but that do not affect framing (e.g. "one or more presentation
contexts") are collected under pdu_dict['remarks'] and are not errors.

Layout facts used (all integers big endian, PS3.8 §9.3.1):
  PDU            type(1) reserved(1) length(4) then `length` bytes
  01H/02H        protocol-version(2) reserved(2) called-AE(16) calling-AE(16) reserved(32) items
  item           type(1) reserved(1) length(2) then `length` bytes
    10H          application context name
    20H          pc-id(1) reserved(3)              sub-items 30H (abstract syntax), 40H (transfer syntax)
    21H          pc-id(1) reserved(1) result(1) reserved(1)   one sub-item 40H
    50H          user information: sub-items (PS3.7 Annex D)
      51H        maximum length received(4)                                     length = 4
      52H        implementation class uid
      53H        max-ops-invoked(2) max-ops-performed(2)                        length = 4
      54H        uid-length(2) uid scu-role(1) scp-role(1)                      length = 2+uid+2
      55H        implementation version name (1..16 characters)
      56H        uid-length(2) uid service-class-application-information        length >= 2+uid
      57H        [2nd header byte = sub-item version] sop-uid-len(2) uid svc-uid-len(2) uid
                 related-general-len(2) { uid-len(2) uid }* [reserved rest]
      58H        identity-type(1) positive-response(1) primary-len(2) primary secondary-len(2) secondary
      59H        server-response-length(2) server-response
  03H            reserved(1) result(1) source(1) reason(1)                       length = 4
  04H            PDV items: length(4) pc-id(1) message-control-header(1) fragment(length-2)
  05H/06H        reserved(4)                                                     length = 4
  07H            reserved(1) reserved(1) source(1) reason(1)                     length = 4
"""
import json
import struct
import sys
import zlib

PDU_NAMES = {1: "rq", 2: "ac", 3: "rj", 4: "pdata", 5: "release_rq", 6: "release_rp", 7: "abort"}

# PS3.8 Table 9-21: valid (source -> reasons) of A-ASSOCIATE-RJ (reserved codes included)
RJ_REASONS = {1: set(range(1, 11)), 2: {1, 2}, 3: set(range(0, 8))}
# PS3.8 Table 9-26: A-ABORT
ABORT_SOURCES = {0, 1, 2}
ABORT_REASONS = set(range(0, 7))


# problem kinds that concern content syntax only (not framing / length consistency)
SYNTAX_KINDS = {"uid-syntax", "text-syntax", "field-range"}


class Trunc(Exception):
    def __init__(self, where, msg):
        Exception.__init__(self, msg)
        self.where = where


def _u16(b, off, end, where):
    if off + 2 > end:
        raise Trunc(where, "need 2 bytes at %d, structure ends at %d" % (off, end))
    return struct.unpack_from(">H", b, off)[0]


def _u32(b, off, end, where):
    if off + 4 > end:
        raise Trunc(where, "need 4 bytes at %d, structure ends at %d" % (off, end))
    return struct.unpack_from(">I", b, off)[0]


def _blob(b):
    return {"len": len(b), "crc": zlib.crc32(bytes(b)) & 0xFFFFFFFF}


def _text(b):
    return bytes(b).decode("latin-1")


def _is_uid(s):
    if not s or len(s) > 64:
        return False
    for comp in s.split("."):
        if not comp or not comp.isdigit() or not comp.isascii():
            return False
        if len(comp) > 1 and comp[0] == "0":
            return False
    return True


def _is_g0(s):
    return all(0x20 <= ord(c) <= 0x7E for c in s)


class _P:
    def __init__(self, buf):
        self.b = buf
        self.problems = []

    def bad(self, kind, where, msg):
        self.problems.append((kind, where, msg))

    # -- generic item header inside [off, end) --------------------------------------------------
    def item_header(self, off, end, where):
        if off + 4 > end:
            raise Trunc(where, "item header needs 4 bytes at %d, container ends at %d" % (off, end))
        t = self.b[off]
        second = self.b[off + 1]
        ln = struct.unpack_from(">H", self.b, off + 2)[0]
        if off + 4 + ln > end:
            self.bad("item-length-overrun", "%s/item%02X" % (where, t),
                     "item %02XH at %d declares %d bytes but its container ends at %d" % (t, off, ln, end))
            raise Trunc(where, "item overruns container")
        return t, second, ln, off + 4, off + 4 + ln

    def uid_field(self, raw, where, allow_empty=False):
        s = _text(raw)
        if s == "" and allow_empty:
            return s
        if not _is_uid(s):
            self.bad("uid-syntax", where, "not a valid UID: %r" % s[:80])
        return s

    # -- user information sub-items -------------------------------------------------------------
    def sub_item(self, t, second, off, end, where):
        b = self.b
        w = "%s/sub%02X" % (where, t)
        ln = end - off
        if t != 0x57 and second != 0:
            self.bad("reserved-nonzero", w, "reserved byte of sub-item %02XH is %d" % (t, second))
        if t == 0x51:
            if ln != 4:
                self.bad("fixed-length-mismatch", w, "maximum length sub-item has length %d (must be 4)" % ln)
                return {"t": "max_length", "v": None}
            return {"t": "max_length", "v": struct.unpack_from(">I", b, off)[0]}
        if t == 0x52:
            return {"t": "impl_class_uid", "v": self.uid_field(b[off:end], w)}
        if t == 0x53:
            if ln != 4:
                self.bad("fixed-length-mismatch", w, "asynchronous operations window has length %d (must be 4)" % ln)
            return {"t": "other", "type": t, "data": _blob(b[off:end])}
        if t == 0x54:
            ul = _u16(b, off, end, w)
            if off + 2 + ul + 2 != end:
                self.bad("inner-length-mismatch", w,
                         "role selection: uid-length %d + 4 != item length %d" % (ul, ln))
                if off + 2 + ul + 2 > end:
                    raise Trunc(w, "role selection uid overruns item")
            uid = self.uid_field(b[off + 2:off + 2 + ul], w)
            scu, scp = b[off + 2 + ul], b[off + 3 + ul]
            if scu > 1 or scp > 1:
                self.bad("field-range", w, "role bytes %d/%d" % (scu, scp))
            return {"t": "role", "uid": uid, "scu": scu, "scp": scp}
        if t == 0x55:
            s = _text(b[off:end])
            if not (1 <= len(s) <= 16) or not _is_g0(s):
                self.bad("text-syntax", w, "implementation version name %r" % s[:40])
            return {"t": "impl_version", "v": s}
        if t == 0x56:
            ul = _u16(b, off, end, w)
            if off + 2 + ul > end:
                self.bad("inner-length-mismatch", w, "ext. negotiation uid-length %d exceeds item length %d" % (ul, ln))
                raise Trunc(w, "uid overruns item")
            uid = self.uid_field(b[off + 2:off + 2 + ul], w)
            return {"t": "ext_neg", "uid": uid, "data": _blob(b[off + 2 + ul:end])}
        if t == 0x57:
            p = off
            l1 = _u16(b, p, end, w); p += 2
            if p + l1 > end:
                self.bad("inner-length-mismatch", w, "sop-class-uid overruns item"); raise Trunc(w, "57H")
            self.uid_field(b[p:p + l1], w); p += l1
            l2 = _u16(b, p, end, w); p += 2
            if p + l2 > end:
                self.bad("inner-length-mismatch", w, "service-class-uid overruns item"); raise Trunc(w, "57H")
            self.uid_field(b[p:p + l2], w); p += l2
            l3 = _u16(b, p, end, w); p += 2
            if p + l3 > end:
                self.bad("inner-length-mismatch", w, "related-general-sop-class list overruns item"); raise Trunc(w, "57H")
            q, qe = p, p + l3
            while q < qe:
                l4 = _u16(b, q, qe, w); q += 2
                if q + l4 > qe:
                    self.bad("inner-length-mismatch", w, "related-general-sop-class uid overruns list"); raise Trunc(w, "57H")
                self.uid_field(b[q:q + l4], w); q += l4
            return {"t": "other", "type": t, "data": _blob(b[off:end])}
        if t == 0x58:
            if off + 2 > end:
                raise Trunc(w, "user identity too short")
            id_type, positive = b[off], b[off + 1]
            p = off + 2
            pl = _u16(b, p, end, w); p += 2
            if p + pl > end:
                self.bad("inner-length-mismatch", w, "primary field length %d overruns item" % pl); raise Trunc(w, "58H")
            primary = b[p:p + pl]; p += pl
            sl = _u16(b, p, end, w); p += 2
            if p + sl != end:
                self.bad("inner-length-mismatch", w,
                         "user identity: fields end at %d, item ends at %d" % (p + sl, end))
                if p + sl > end:
                    raise Trunc(w, "58H")
            secondary = b[p:p + sl]
            if not 1 <= id_type <= 5:
                self.bad("field-range", w, "user identity type %d" % id_type)
            if positive > 1:
                self.bad("field-range", w, "positive-response-requested %d" % positive)
            return {"t": "user_identity", "id_type": id_type, "positive": positive,
                    "primary": _blob(primary), "secondary": _blob(secondary)}
        if t == 0x59:
            rl = _u16(b, off, end, w)
            if off + 2 + rl != end:
                self.bad("inner-length-mismatch", w, "server response length %d + 2 != item length %d" % (rl, ln))
            return {"t": "other", "type": t, "data": _blob(b[off:end])}
        return {"t": "other", "type": t, "data": _blob(b[off:end])}

    # -- variable items of A-ASSOCIATE-RQ/AC ------------------------------------------------------
    def assoc(self, kind, off, end):
        b = self.b
        w = kind
        if end - off < 68:
            self.bad("fixed-part-truncated", w, "A-ASSOCIATE PDU body of %d bytes (< 68)" % (end - off))
            raise Trunc(w, "fixed part")
        out = {"type": kind, "protocol_version": struct.unpack_from(">H", b, off)[0], "remarks": []}
        if b[off + 2:off + 4] != b"\0\0":
            self.bad("reserved-nonzero", w, "bytes 9-10 are %s" % bytes(b[off + 2:off + 4]).hex())
        called = _text(b[off + 4:off + 20])
        calling = _text(b[off + 20:off + 36])
        for nm, v in (("called", called), ("calling", calling)):
            if not _is_g0(v):
                self.bad("text-syntax", w, "%s AE title field %r outside ISO 646 G0" % (nm, v))
        # leading and trailing spaces are non-significant
        out["called"] = called.strip(" ")
        out["calling"] = calling.strip(" ")
        out["called_raw"] = called
        out["calling_raw"] = calling
        if kind == "rq" and b[off + 36:off + 68] != b"\0" * 32:
            self.bad("reserved-nonzero", w, "bytes 43-74 not all zero")
        p = off + 68
        app_ctx = []
        pcs = []
        user = None
        order = []
        while p < end:
            t, second, ln, cs, ce = self.item_header(p, end, w)
            wi = "%s/item%02X" % (w, t)
            order.append(t)
            if second != 0:
                self.bad("reserved-nonzero", wi, "reserved byte of item %02XH is %d" % (t, second))
            if t == 0x10:
                app_ctx.append(self.uid_field(b[cs:ce], wi))
            elif t == 0x20 and kind == "rq":
                if ln < 4:
                    self.bad("item-too-short", wi, "presentation context item of %d bytes" % ln)
                    raise Trunc(wi, "pc")
                if b[cs + 1:cs + 4] != b"\0\0\0":
                    self.bad("reserved-nonzero", wi, "bytes 6-8 are %s" % bytes(b[cs + 1:cs + 4]).hex())
                pc = {"id": b[cs], "abstract": None, "ts": []}
                n_abs = 0
                q = cs + 4
                while q < ce:
                    st, s2, sl, scs, sce = self.item_header(q, ce, wi)
                    if s2 != 0:
                        self.bad("reserved-nonzero", "%s/sub%02X" % (wi, st), "reserved byte is %d" % s2)
                    if st == 0x30:
                        pc["abstract"] = self.uid_field(b[scs:sce], wi + "/sub30")
                        n_abs += 1
                    elif st == 0x40:
                        pc["ts"].append(self.uid_field(b[scs:sce], wi + "/sub40"))
                    else:
                        self.bad("unexpected-sub-item", wi, "sub-item %02XH in a proposed presentation context" % st)
                    q = sce
                if n_abs != 1:
                    self.bad("cardinality", wi, "%d abstract syntax sub-items" % n_abs)
                if not pc["ts"]:
                    out["remarks"].append("presentation context %d proposes no transfer syntax" % pc["id"])
                if pc["id"] % 2 == 0:
                    self.bad("field-range", wi, "even presentation context id %d" % pc["id"])
                pcs.append(pc)
            elif t == 0x21 and kind == "ac":
                if ln < 4:
                    self.bad("item-too-short", wi, "presentation context item of %d bytes" % ln)
                    raise Trunc(wi, "pc")
                if b[cs + 1] != 0 or b[cs + 3] != 0:
                    self.bad("reserved-nonzero", wi, "bytes 6/8 are %d/%d" % (b[cs + 1], b[cs + 3]))
                reason = b[cs + 2]
                if reason > 4:
                    self.bad("field-range", wi, "result/reason %d" % reason)
                pc = {"id": b[cs], "reason": reason, "ts": None}
                n_ts = 0
                q = cs + 4
                while q < ce:
                    st, s2, sl, scs, sce = self.item_header(q, ce, wi)
                    if s2 != 0:
                        self.bad("reserved-nonzero", "%s/sub%02X" % (wi, st), "reserved byte is %d" % s2)
                    if st == 0x40:
                        # not significant unless accepted
                        pc["ts"] = self.uid_field(b[scs:sce], wi + "/sub40", allow_empty=(reason != 0))
                        n_ts += 1
                    else:
                        self.bad("unexpected-sub-item", wi, "sub-item %02XH in a presentation context result" % st)
                    q = sce
                if n_ts != 1:
                    self.bad("cardinality", wi, "%d transfer syntax sub-items" % n_ts)
                if pc["id"] % 2 == 0:
                    self.bad("field-range", wi, "even presentation context id %d" % pc["id"])
                pcs.append(pc)
            elif t == 0x50:
                if user is not None:
                    self.bad("cardinality", wi, "second user information item")
                user = []
                q = cs
                while q < ce:
                    st, s2, sl, scs, sce = self.item_header(q, ce, wi)
                    user.append(self.sub_item(st, s2, scs, sce, wi))
                    q = sce
            else:
                self.bad("unexpected-item", w, "item %02XH in A-ASSOCIATE-%s" % (t, kind.upper()))
            p = ce
        if len(app_ctx) != 1:
            self.bad("cardinality", w, "%d application context items" % len(app_ctx))
        out["app_ctx"] = app_ctx[0] if app_ctx else None
        out["pcs"] = pcs
        out["user"] = user if user is not None else []
        if user is None:
            out["remarks"].append("no user information item")
        if not pcs:
            out["remarks"].append("no presentation context item")
        if order != sorted(order):
            out["remarks"].append("items not in ascending type order")
        ids = [pc["id"] for pc in pcs]
        if len(set(ids)) != len(ids):
            self.bad("cardinality", w, "duplicate presentation context ids")
        return out

    def pdata(self, off, end):
        b = self.b
        pdvs = []
        p = off
        while p < end:
            w = "pdata/pdv"
            ln = _u32(b, p, end, w)
            if ln < 2:
                self.bad("item-too-short", w, "PDV item length %d (< 2)" % ln)
                raise Trunc(w, "pdv")
            if p + 4 + ln > end:
                self.bad("item-length-overrun", w,
                         "PDV at %d declares %d bytes but the PDU ends at %d" % (p, ln, end))
                raise Trunc(w, "pdv")
            pc = b[p + 4]
            mch = b[p + 5]
            if mch & 0xFC:
                self.bad("reserved-nonzero", w, "message control header %02XH has reserved bits set" % mch)
            pdvs.append({"pc": pc, "command": mch & 1, "last": (mch >> 1) & 1,
                         "data": _blob(b[p + 6:p + 4 + ln])})
            p += 4 + ln
        out = {"type": "pdata", "pdvs": pdvs, "remarks": []}
        if not pdvs:
            out["remarks"].append("P-DATA-TF without any PDV")
        return out

    def pdu(self, off):
        b = self.b
        n = len(b)
        start = len(self.problems)
        if off + 6 > n:
            self.bad("pdu-header-truncated", "pdu", "%d bytes left at %d" % (n - off, off))
            return None, n
        t = b[off]
        ln = struct.unpack_from(">I", b, off + 2)[0]
        name = PDU_NAMES.get(t, "unknown")
        if b[off + 1] != 0:
            self.bad("reserved-nonzero", name, "PDU byte 2 is %d" % b[off + 1])
        end = off + 6 + ln
        if end > n:
            self.bad("pdu-length-overrun", name,
                     "PDU-length %d at %d but only %d bytes follow" % (ln, off, n - off - 6))
            return None, n
        body = off + 6
        out = None
        try:
            if t in (1, 2):
                out = self.assoc(name, body, end)
            elif t == 3:
                if ln != 4:
                    self.bad("fixed-length-mismatch", name, "A-ASSOCIATE-RJ with PDU-length %d" % ln)
                if ln >= 4:
                    if b[body] != 0:
                        self.bad("reserved-nonzero", name, "byte 7 is %d" % b[body])
                    res, src, rea = b[body + 1], b[body + 2], b[body + 3]
                    if res not in (1, 2) or src not in RJ_REASONS or rea not in RJ_REASONS.get(src, ()):
                        self.bad("field-range", name, "result/source/reason %d/%d/%d" % (res, src, rea))
                    out = {"type": "rj", "result": res, "source": src, "reason": rea}
            elif t == 4:
                out = self.pdata(body, end)
            elif t in (5, 6):
                if ln != 4:
                    self.bad("fixed-length-mismatch", name, "A-RELEASE with PDU-length %d" % ln)
                elif b[body:end] != b"\0\0\0\0":
                    self.bad("reserved-nonzero", name, "bytes 7-10 are %s" % bytes(b[body:end]).hex())
                out = {"type": name}
            elif t == 7:
                if ln != 4:
                    self.bad("fixed-length-mismatch", name, "A-ABORT with PDU-length %d" % ln)
                if ln >= 4:
                    if b[body] != 0 or b[body + 1] != 0:
                        self.bad("reserved-nonzero", name, "bytes 7-8 are %d,%d" % (b[body], b[body + 1]))
                    src, rea = b[body + 2], b[body + 3]
                    if src not in ABORT_SOURCES or (src == 2 and rea not in ABORT_REASONS):
                        self.bad("field-range", name, "source/reason %d/%d" % (src, rea))
                    out = {"type": "abort", "source": src, "reason": rea}
            else:
                out = {"type": "unknown", "pdu_type": t, "data": _blob(b[body:end])}
        except Trunc as e:
            if len(self.problems) == start:
                self.bad("truncated-structure", e.where, str(e))
            out = None
        return out, end


def parse_pdu(buf, off=0):
    """Parse one PDU at `off`. Returns (pdu or None, end offset, problems)."""
    p = _P(bytes(buf))
    out, end = p.pdu(off)
    return out, end, p.problems


def parse_stream(buf):
    """Parse a concatenation of PDUs; anything left over is a problem."""
    buf = bytes(buf)
    p = _P(buf)
    out = []
    off = 0
    while off < len(buf):
        before = len(p.problems)
        pdu, end = p.pdu(off)
        if pdu is None and len(p.problems) > before and end >= len(buf):
            break
        out.append(pdu)
        off = end
    return out, p.problems


def describe(pdu):
    """Normalised abstract content (drops parser-only fields)."""
    if pdu is None:
        return None
    d = {k: v for k, v in pdu.items() if k not in ("remarks", "called_raw", "calling_raw")}
    return d


def validate_one(buf, expected=None):
    """Validate that `buf` is exactly one well-formed PDU (no trailing bytes) and, if `expected`
    (an abstract description) is given, that it decodes to exactly that content.
    Returns a list of problems (kind, where, message)."""
    pdu, end, problems = parse_pdu(buf, 0)
    problems = list(problems)
    if pdu is not None and end != len(buf):
        problems.append(("trailing-bytes", pdu["type"], "%d bytes after the end of the PDU" % (len(buf) - end)))
    if expected is not None and pdu is not None and not problems:
        got = describe(pdu)
        if got != expected:
            d = _first_diff(got, expected)
            problems.append(("content-mismatch", _norm_path(d.get("path", ""), got),
                             "decoded content differs from what was written at %s: %s" % (
                                 d.get("path"), json.dumps(d)[:300])))
    return problems


def _norm_path(path, got):
    """'/user[3]/scp' -> 'user/role/scp' (indices dropped, user sub-item kind inserted)."""
    import re
    out = []
    node = got
    for comp in [c for c in path.split("/") if c]:
        m = re.match(r"^([^\[]+)(?:\[(\d+)\])?$", comp)
        name, idx = (m.group(1), m.group(2)) if m else (comp, None)
        out.append(name)
        try:
            node = node[name]
            if idx is not None:
                node = node[int(idx)]
                if isinstance(node, dict) and "t" in node:
                    out.append(str(node["t"]))
        except Exception:
            node = {}
    return "/".join(out) or "?"


def _first_diff(a, b, path=""):
    if type(a) != type(b):
        return {"path": path, "decoded": a, "expected": b}
    if isinstance(a, dict):
        for k in sorted(set(a) | set(b)):
            if a.get(k) != b.get(k):
                return _first_diff(a.get(k), b.get(k), path + "/" + str(k))
    if isinstance(a, list):
        if len(a) != len(b):
            return {"path": path, "decoded_len": len(a), "expected_len": len(b)}
        for i, (x, y) in enumerate(zip(a, b)):
            if x != y:
                return _first_diff(x, y, "%s[%d]" % (path, i))
    return {"path": path, "decoded": a, "expected": b}


def self_test():
    """Hand-assembled PDUs from the PS3.8 tables; run by `ps38_parse.py selftest`."""
    def item(t, body, second=0):
        return bytes([t, second]) + struct.pack(">H", len(body)) + body
    uid = b"1.2.840.10008.3.1.1.1"
    pc = item(0x20, bytes([1, 0, 0, 0]) + item(0x30, b"1.2.840.10008.1.1") + item(0x40, b"1.2.840.10008.1.2"))
    user = item(0x50, item(0x51, struct.pack(">I", 16384)) + item(0x52, b"1.2.3") + item(0x55, b"V1")
                + item(0x54, struct.pack(">H", 3) + b"1.2" + b"\1\0")
                + item(0x56, struct.pack(">H", 3) + b"1.2" + b"\xAA\xBB")
                + item(0x58, bytes([2, 1]) + struct.pack(">H", 2) + b"ab" + struct.pack(">H", 1) + b"c"))
    body = struct.pack(">HH", 1, 0) + b"CALLED".ljust(16) + b"CALLING".ljust(16) + b"\0" * 32 + item(0x10, uid) + pc + user
    rq = bytes([1, 0]) + struct.pack(">I", len(body)) + body
    pdu, end, probs = parse_pdu(rq)
    assert not probs, probs
    assert end == len(rq)
    d = describe(pdu)
    assert d["called"] == "CALLED" and d["calling"] == "CALLING" and d["app_ctx"] == uid.decode()
    assert d["pcs"] == [{"id": 1, "abstract": "1.2.840.10008.1.1", "ts": ["1.2.840.10008.1.2"]}]
    assert [u["t"] for u in d["user"]] == ["max_length", "impl_class_uid", "impl_version", "role", "ext_neg", "user_identity"]
    # a corrupted inner length must be noticed
    bad = bytearray(rq)
    bad[-1:] = b""
    assert validate_one(bytes(bad))
    bad = bytearray(rq)
    bad[5] -= 1
    assert validate_one(bytes(bad))
    pd = bytes([4, 0]) + struct.pack(">I", 10) + struct.pack(">I", 6) + bytes([3, 3]) + b"abcd"
    pdu, end, probs = parse_pdu(pd)
    assert not probs and describe(pdu)["pdvs"][0] == {"pc": 3, "command": 1, "last": 1, "data": _blob(b"abcd")}
    assert validate_one(pd + b"\0")[0][0] == "trailing-bytes"
    rel = bytes([5, 0, 0, 0, 0, 4, 0, 0, 0, 0])
    assert not validate_one(rel, {"type": "release_rq"})
    ab = bytes([7, 0, 0, 0, 0, 4, 0, 0, 2, 6])
    assert not validate_one(ab, {"type": "abort", "source": 2, "reason": 6})
    rj = bytes([3, 0, 0, 0, 0, 4, 0, 1, 1, 7])
    assert not validate_one(rj, {"type": "rj", "result": 1, "source": 1, "reason": 7})
    pdus, probs = parse_stream(rel + ab + rj + pd)
    assert not probs and [p["type"] for p in pdus] == ["release_rq", "abort", "rj", "pdata"]
    return True


def main(argv):
    if len(argv) >= 2 and argv[1] == "selftest":
        self_test()
        print("ok")
        return 0
    if len(argv) >= 3 and argv[1] == "validate":
        n = bad = 0
        for line in open(argv[2]):
            rec = json.loads(line)
            probs = validate_one(bytes.fromhex(rec["hex"]), rec.get("expect"))
            n += 1
            if probs:
                bad += 1
                print(json.dumps({"id": rec.get("id"), "problems": probs}))
        print("%d PDUs, %d with problems" % (n, bad), file=sys.stderr)
        return 1 if bad else 0
    print(__doc__)
    return 2


if __name__ == "__main__":
    sys.exit(main(sys.argv))
