#!/usr/bin/env python3
"""O-ANNEXF: independent validator of the DICOM JSON Model (PS3.18 Annex F), written from the
standard text (F.2.2 – F.2.7) and the clauses listed in property C24.

validate(doc_text, binary_expect) -> list of error strings
  binary_expect: {path: hex of the expected little-endian value bytes} for binary VRs
"""
import base64
import json
import re

KEY = re.compile(r"^[0-9A-F]{8}$")
VRS = {
    "AE", "AS", "AT", "CS", "DA", "DS", "DT", "FL", "FD", "IS", "LO", "LT", "OB", "OD", "OF", "OL",
    "OV", "OW", "PN", "SH", "SL", "SQ", "SS", "ST", "SV", "TM", "UC", "UI", "UL", "UN", "UR", "US",
    "UT", "UV",
}
STRING_VRS = {"AE", "AS", "CS", "DA", "DT", "LO", "LT", "SH", "ST", "TM", "UC", "UI", "UR", "UT"}
NUMBER_VRS = {"FL", "FD", "SL", "SS", "UL", "US"}
NUMBER_OR_STRING_VRS = {"DS", "IS", "SV", "UV"}
BINARY_VRS = {"OB", "OD", "OF", "OL", "OV", "OW", "UN"}
NONFINITE = {"NaN", "inf", "-inf"}  # the strings documented by dicom-json for non-finite floats
INT_RANGE = {"SL": (-2**31, 2**31 - 1), "SS": (-2**15, 2**15 - 1), "UL": (0, 2**32 - 1), "US": (0, 2**16 - 1)}


def is_number(x):
    return isinstance(x, (int, float)) and not isinstance(x, bool)


def validate_dataset(obj, path, errs, binary):
    if not isinstance(obj, dict):
        errs.append("%s: data set is not a JSON object" % (path or "<root>"))
        return
    keys = list(obj.keys())
    for k in keys:
        if not KEY.match(k):
            errs.append("%s: key %r is not eight upper-case hexadecimal digits" % (path or "<root>", k))
    hexkeys = [k for k in keys if KEY.match(k)]
    if hexkeys != sorted(hexkeys):
        errs.append("%s: attribute keys are not in ascending order" % (path or "<root>"))
    for k in keys:
        validate_element(obj[k], path + k, errs, binary)


def validate_element(el, p, errs, binary):
    if not isinstance(el, dict):
        errs.append("%s: attribute is not a JSON object" % p)
        return
    vr = el.get("vr")
    if not isinstance(vr, str) or vr not in VRS:
        errs.append("%s: missing or invalid \"vr\" member (%r)" % (p, vr))
        return
    for m in el:
        if m not in ("vr", "Value", "InlineBinary", "BulkDataURI"):
            errs.append("%s: unexpected member %r" % (p, m))
    present = [m for m in ("Value", "InlineBinary", "BulkDataURI") if m in el]
    if len(present) > 1:
        errs.append("%s: %s are mutually exclusive" % (p, " and ".join(present)))
    if "InlineBinary" in el:
        ib = el["InlineBinary"]
        if vr not in BINARY_VRS:
            errs.append("%s: InlineBinary used with VR %s" % (p, vr))
        if not isinstance(ib, str):
            errs.append("%s: InlineBinary is not a string" % p)
        else:
            try:
                raw = base64.b64decode(ib, validate=True)
            except Exception:
                errs.append("%s: InlineBinary is not valid base64" % p)
                raw = None
            if raw is not None and p in binary:
                want = bytes.fromhex(binary[p])
                if raw != want and not (len(want) % 2 == 1 and raw == want + b"\x00"):
                    errs.append("%s: InlineBinary of VR %s decodes to %s, expected the little-endian bytes %s" % (
                        p, vr, raw.hex()[:64], want.hex()[:64]))
    elif p in binary:
        errs.append("%s: binary VR %s without InlineBinary" % (p, vr))
    if "Value" in el:
        v = el["Value"]
        if vr in BINARY_VRS:
            errs.append("%s: VR %s uses Value instead of InlineBinary" % (p, vr))
            return
        if not isinstance(v, list):
            errs.append("%s: Value is not an array" % p)
            return
        if len(v) == 0:
            errs.append("%s: empty value encoded with a Value member (empty array)" % p)
            return
        for i, x in enumerate(v):
            q = "%s[%d]" % (p, i)
            if vr == "SQ":
                if not isinstance(x, dict):
                    errs.append("%s: sequence item is not a data set object" % q)
                else:
                    validate_dataset(x, q + ".", errs, binary)
            elif vr == "AT":
                if not (isinstance(x, str) and KEY.match(x)):
                    errs.append("%s: AT value %r is not an eight-hex-digit string" % (q, x))
            elif vr == "PN":
                if x is None:
                    continue
                if not isinstance(x, dict):
                    errs.append("%s: PN value is not an object" % q)
                    continue
                for m, s in x.items():
                    if m not in ("Alphabetic", "Ideographic", "Phonetic"):
                        errs.append("%s: unexpected PN member %r" % (q, m))
                    elif not isinstance(s, str):
                        errs.append("%s: PN member %s is not a string" % (q, m))
                if "Alphabetic" not in x and x:
                    errs.append("%s: PN object without an Alphabetic member" % q)
                if not x:
                    errs.append("%s: empty PN object" % q)
            elif vr in NUMBER_VRS:
                if vr in ("FL", "FD") and isinstance(x, str) and x in NONFINITE:
                    continue
                if not is_number(x):
                    errs.append("%s: %s value %r is not a JSON number" % (q, vr, x))
                elif vr in INT_RANGE:
                    lo, hi = INT_RANGE[vr]
                    if isinstance(x, float) and not x.is_integer():
                        errs.append("%s: %s value %r is not an integer" % (q, vr, x))
                    elif not (lo <= x <= hi):
                        errs.append("%s: %s value %r out of range" % (q, vr, x))
            elif vr in NUMBER_OR_STRING_VRS:
                if not (is_number(x) or isinstance(x, str) or x is None):
                    errs.append("%s: %s value %r is neither number nor string" % (q, vr, x))
            elif vr in STRING_VRS:
                if not (isinstance(x, str) or x is None):
                    errs.append("%s: %s value %r is not a string" % (q, vr, x))


def validate(doc_text, binary=None):
    errs = []
    try:
        doc = json.loads(doc_text)
    except Exception as e:
        return ["not valid JSON: %s" % e]
    # json.loads keeps object member order (dict), which is what the ordering clause needs
    validate_dataset(doc, "", errs, binary or {})
    return errs


def classify(msg):
    m = msg.split(": ", 1)[-1]
    m = re.sub(r"'[^']*'", "'…'", m)
    m = re.sub(r"\b[0-9a-f]{6,}\b", "H", m)
    m = re.sub(r"-?\d+(\.\d+)?(e[+-]?\d+)?", "N", m)
    return m[:90]


def _chunk(args):
    path, start, end = args
    out = {"records": 0, "violations": [], "elements": 0}
    with open(path, "rb") as fh:
        fh.seek(start)
        while fh.tell() < end:
            line = fh.readline()
            if not line.strip():
                continue
            rec = json.loads(line)
            errs = validate(rec["json"], rec.get("binary"))
            out["records"] += 1
            out["elements"] += rec["json"].count('"vr"')
            if errs:
                out["violations"].append({"id": rec.get("id"), "errors": errs[:4], "ctx": rec.get("ctx"), "json": rec["json"][:3000]})
    return out


def validate_file(path, procs=16):
    import multiprocessing
    import os
    size = os.path.getsize(path)
    if size == 0:
        return {"records": 0, "violations": [], "elements": 0}
    cuts = [0]
    with open(path, "rb") as fh:
        for i in range(1, procs * 4):
            fh.seek(size * i // (procs * 4))
            fh.readline()
            pos = fh.tell()
            if cuts[-1] < pos < size:
                cuts.append(pos)
    cuts.append(size)
    with multiprocessing.Pool(procs) as pool:
        parts = pool.map(_chunk, [(path, cuts[i], cuts[i + 1]) for i in range(len(cuts) - 1)])
    out = {"records": 0, "violations": [], "elements": 0}
    for p in parts:
        out["records"] += p["records"]
        out["elements"] += p["elements"]
        out["violations"] += p["violations"]
    return out
